# ---- C16: defining identities of the multi-objective benchmark families -------------------------------------------------
_X = [("x", "List[Real]")]
declare_fun("pcos", [("x", "List[Real]"), ("r", "Int")], "Real", by_value=True,
            definition="(1.0 if r <= 0 else pcos(x, r - 1) * cos(0.5 * x[r - 1] * pi))")
declare_fun("gdist", [("x", "List[Real]"), ("t", "Int")], "Real", by_value=True,
            definition="(0.0 if t <= 0 else gdist(x, t - 1) + (x[len(x) - t] - 0.5) * (x[len(x) - t] - 0.5))")
declare_fun("sqsum", [("s", "List[Real]"), ("n", "Int")], "Real", by_value=True, prefix_recursive=True,
            definition="(0.0 if n <= 0 else sqsum(s, n - 1) + s[n - 1] * s[n - 1])")
# the two polynomial identities behind the telescoping argument (pure real arithmetic, proved once by nlsat)
_R = lambda *ns: [(n, "Real") for n in ns]
lemma("dtlz_first", props=["C16"], vars=_R("G", "p"), hyps=[], goal="(p * G) * (p * G) == G * G * p * p")
lemma("dtlz_step", props=["C16"], vars=_R("G", "p", "c", "s", "S"),
      hyps=["S == G * G * (p * c) * (p * c)", "s * s + c * c == 1"],
      goal="S + ((p * s) * G) * ((p * s) * G) == G * G * p * p")
define("in_unit_box", ["x"], "forall(lambda i: 0 <= x[i] and x[i] <= 1, 0, len(x))")

# DTLZ3: sphere of radius 1 + 100 * g3, g3 = k + sum((y - 0.5)^2 - cos(20 pi (y - 0.5))) over the last k = 10 variables
declare_fun("gdist3", [("x", "List[Real]"), ("t", "Int")], "Real", by_value=True,
            definition="(10.0 if t <= 0 else gdist3(x, t - 1) + (x[len(x) - t] - 0.5) * (x[len(x) - t] - 0.5) - "
                       "cos(20.0 * pi * (x[len(x) - t] - 0.5)))")
# DTLZ4: as DTLZ2 with x_j ** 100 inside the angles
declare_fun("pcos4", [("x", "List[Real]"), ("r", "Int")], "Real", by_value=True,
            definition="(1.0 if r <= 0 else pcos4(x, r - 1) * cos(0.5 * x[r - 1] ** 100 * pi))")


def _dtlz_sphere(cls, pc, gfun, gexpr, angle_c, angle_s, gm_line, gm_init_line, fi_scale_line, cos_line, gm_lower):
    G = gexpr
    contract("artap.benchmark_pareto:%s.evaluate" % cls, props=["C16"],
             types={"x": "Ref[Individual]", "result": "List[Real]"},
             locals={"scores": "List[Real]", "fi": "Real", "gm": "Real", "x": "List[Real]"},
             requires=["valid(x.vector)", "valid(self.costs)", "len(self.costs) >= 2", "len(x.vector) == len(self.costs) + 9",
                       "in_unit_box(x.vector)"],
             ensures=["len(result) == len(self.costs)",
                      "sqsum(result, len(result)) == (%s) * (%s)" % (G.replace("x,", "old(x.vector),"), G.replace("x,", "old(x.vector),")),
                      "forall(lambda t: result[t] >= 0, 0, len(result))"],
             loops={1: ["_k <= m", "len(scores) == _k", "fresh(scores)", "unchanged(x)", "m == len(self.costs)", "k == 10",
                        "sqsum(scores, _k) == (0.0 if _k == 0 else (%s) * (%s) * %s(x, m - _k) * %s(x, m - _k))" % (G, G, pc, pc),
                        "forall(lambda t: scores[t] >= 0, 0, _k)"],
                    2: ["_k2 <= m - i - 1", "fi == %s(x, _k2)" % pc, "i == _k1", "_k1 < m", "fi >= 0"],
                    3: ["_k3 <= 10", "gm == %s(x, _k3)" % gfun, gm_lower]},
             ghost={"after:" + cos_line: ["unfold %s(x, _k2 + 1)" % pc],
                    "before:for i in range(0, m)": ["unfold sqsum(scores, 0)"],
                    "before:return scores": ["unfold %s(x, 0)" % pc],
                    "after:fi = 1.0": ["unfold %s(x, 0)" % pc], "after:" + gm_init_line: ["unfold %s(x, 0)" % gfun],
                    "after:" + gm_line: ["unfold %s(x, _k3 + 1)" % gfun],
                    # the step is cut into small obligations (ghost asserts); the final one is then pure polynomial arithmetic
                    "after:scores.append(fi)": [
                        "unfold sqsum(scores, _k1 + 1)", "unfold %s(x, m - _k1)" % pc,
                        "assert sqsum(scores, _k1 + 1) == sqsum(scores, _k1) + fi * fi",
                        "assert implies(_k1 > 0, sin(%s) * sin(%s) + cos(%s) * cos(%s) == 1)" % (angle_s, angle_s, angle_c, angle_c),
                        "assert implies(_k1 > 0, fi == (%s(x, m - _k1 - 1) * sin(%s)) * (%s))" % (pc, angle_s, G),
                        "assert implies(_k1 == 0, fi == %s(x, m - _k1 - 1) * (%s))" % (pc, G),
                        "assert implies(_k1 > 0, %s(x, m - _k1) == %s(x, m - _k1 - 1) * cos(%s))" % (pc, pc, angle_c),
                        "use dtlz_first(%s, %s(x, m - _k1 - 1))" % (G, pc),
                        "use dtlz_step(%s, %s(x, m - _k1 - 1), cos(%s), sin(%s), sqsum(scores, _k1))" % (G, pc, angle_c, angle_s)]},
             allocates=["$list.Real", "$len.Real"])


_dtlz_sphere("DTLZII", "pcos", "gdist", "1 + gdist(x, 10)", "0.5 * x[m - _k1 - 1] * pi", "x[m - _k1 - 1] * pi / 2.0",
             "gm += (x[len(x) - i - 1] - 0.5) ** 2.0", "gm = 0.0", "fi *= 1.0 + gm", "fi *= cos(0.5 * x[j] * pi)", "gm >= 0")
_dtlz_sphere("DTLZIII", "pcos", "gdist3", "1 + 100.0 * gdist3(x, 10)", "0.5 * x[m - _k1 - 1] * pi", "x[m - _k1 - 1] * pi / 2.0",
             "gm += (x[len(x) - i - 1] - 0.5) ** 2.0 - cos(", "gm = float(k)", "fi = fi * (1 + 100.0 * gm)", "fi *= cos(0.5 * x[j] * pi)",
             "gm >= 10 - _k3")
_dtlz_sphere("DTLZIV", "pcos4", "gdist", "1 + gdist(x, 10)", "0.5 * x[m - _k1 - 1] ** 100 * pi", "x[m - _k1 - 1] ** 100 * pi / 2.0",
             "gm += (x[len(x) - i - 1] - 0.5) ** 2.0", "gm = 0.0", "fi *= 1.0 + gm", "fi *= cos(0.5 * x[j] ** alpha * pi)", "gm >= 0")

# DTLZ1: the objectives sum to (1 + g) / 2
declare_fun("px", [("x", "List[Real]"), ("r", "Int")], "Real", by_value=True,
            definition="(1.0 if r <= 0 else px(x, r - 1) * x[r - 1])")
declare_fun("lsum", [("s", "List[Real]"), ("n", "Int")], "Real", by_value=True, prefix_recursive=True,
            definition="(0.0 if n <= 0 else lsum(s, n - 1) + s[n - 1])")
lemma("dtlz1_step", props=["C16"], vars=_R("f", "p", "y", "S"), hyps=["S == f * (p * y)"],
      goal="S + (f * p) * (1.0 - y) == f * p")
contract("artap.benchmark_pareto:DTLZI.evaluate", props=["C16"],
         types={"x": "Ref[Individual]", "result": "List[Real]"},
         locals={"scores": "List[Real]", "fi": "Real", "g": "Real", "factor": "Real", "x": "List[Real]"},
         requires=["valid(x.vector)", "valid(self.costs)", "len(self.costs) >= 2", "len(x.vector) >= len(self.costs)",
                   "in_unit_box(x.vector)"],
         ensures=["len(result) == len(self.costs)",
                  # sum of the objectives = (1 + g)/2 with g = 100 (k + sum over the last k variables of (y-1/2)^2 - cos(20 pi (y-1/2)))
                  "lsum(result, len(result)) == 0.5 * (1 + 100 * ((len(old(x.vector)) - len(self.costs) + 1) + "
                  "seqsum([(y - 0.5) * (y - 0.5) - cos(20.0 * pi * (y - 0.5)) for y in old(x.vector)[len(self.costs) - 1:]])))",
                  "forall(lambda t: result[t] >= 0, 0, len(result))"],
         loops={1: ["_k <= m", "len(scores) == _k", "fresh(scores)", "unchanged(x)", "m == len(self.costs)", "factor >= 0",
                    "lsum(scores, _k) == (0.0 if _k == 0 else factor * px(x, m - _k))",
                    "forall(lambda t: scores[t] >= 0, 0, _k)"],
                2: ["_k2 <= m - i - 1", "fi == factor * px(x, _k2)", "i == _k1", "_k1 < m", "fi >= 0", "px(x, _k2) >= 0"]},
         ghost={"after:fi *= x[j]": ["unfold px(x, _k2 + 1)"], "after:fi = factor": ["unfold px(x, 0)"],
                "before:for i in range(0, m)": ["unfold lsum(scores, 0)"], "before:return scores": ["unfold px(x, 0)"],
                "after:scores.append(fi)": ["unfold lsum(scores, _k1 + 1)", "unfold px(x, m - _k1)",
                                            "use dtlz1_step(factor, px(x, m - _k1 - 1), x[m - _k1 - 1], lsum(scores, _k1))"]},
         allocates=["$list.Real", "$len.Real"])

# ZDT1: f2 = g (1 - sqrt(f1 / g)), g = 1 + 9 mean(x_2..x_n)
define("zdt_g", ["v"], "9.0 / (len(v) - 1) * (seqsum(v) - v[0]) + 1.0")
contract("artap.benchmark_pareto:ZDT1.eval_g", props=["C16"], types={"x": "Ref[Individual]", "result": "Real"},
         requires=["valid(x.vector)", "len(x.vector) >= 2"], ensures=["result == zdt_g(x.vector)"], pure=True, returns="zdt_g(x.vector)")
contract("artap.benchmark_pareto:ZDT1.eval_h", props=["C16"], types={"f": "Real", "g": "Real", "result": "Real"},
         requires=["g != 0"], ensures=["result == 1.0 - sqrt(f / g)"], pure=True, returns="1.0 - sqrt(f / g)")
contract("artap.benchmark_pareto:ZDT1.evaluate", props=["C16"], types={"x": "Ref[Individual]", "result": "List[Real]"},
         requires=["valid(x.vector)", "len(x.vector) >= 2", "in_unit_box(x.vector)"],
         ensures=["len(result) == 2", "result[0] == x.vector[0]",
                  "result[1] == zdt_g(x.vector) * (1.0 - sqrt(x.vector[0] / zdt_g(x.vector)))",
                  "result[0] >= 0 and result[1] >= 0"],
         ghost={"after:g = self.eval_g(x)": ["sum_first x.vector"]},
         allocates=["$list.Real", "$len.Real"])

contract("artap.benchmark_pareto:BiObjectiveTestProblem.evaluate", props=["C16"],
         types={"individual": "Ref[Individual]", "result": "List[Real]"},
         requires=["valid(individual.vector)", "len(individual.vector) == 2", "0.1 <= individual.vector[0] and individual.vector[0] <= 1",
                   "0 <= individual.vector[1] and individual.vector[1] <= 5"],
         ensures=["len(result) == 2", "result[0] * result[1] == 1 + individual.vector[1]", "result[0] >= 0 and result[1] >= 0"],
         allocates=["$list.Real", "$len.Real"])

# ---- C03: environmental selection ----------------------------------------------------------------------------------------
# nondominated_cmp orders by (front number ascending, crowding distance descending over the extended reals)
define("fr", ["x"], "x.features['front_number']")
define("cd", ["x"], "x.features['crowding_distance']")
define("ncmp", ["p", "q"],
       "ite(fr(p) == fr(q), ite(cd(p) > cd(q), -1, ite(cd(p) < cd(q), 1, 0)), ite(fr(p) < fr(q), -1, 1))")
define("ranked", ["x"], "valid(x.features) and not is_none(x.features['front_number'])")
contract("artap.operators:nondominated_cmp", props=["C03", "C09"],
         types={"p": "Ref[Individual]", "q": "Ref[Individual]", "result": "Int"},
         requires=["ranked(p)", "ranked(q)"], ensures=["result == ncmp(p, q)"], pure=True, returns="ncmp(p, q)")
_PQR = [("p", "Ref[Individual]"), ("q", "Ref[Individual]"), ("r", "Ref[Individual]")]
# total preorder: this is the precondition under which sorted(key=cmp_to_key(nondominated_cmp)) orders its result
lemma("ncmp_reflexive", props=["C03"], vars=_PQR[:1], hyps=["ranked(p)"], goal="ncmp(p, p) == 0")
lemma("ncmp_antisymmetric", props=["C03"], vars=_PQR[:2], hyps=["ranked(p)", "ranked(q)"], goal="ncmp(p, q) == -ncmp(q, p)")
lemma("ncmp_transitive", props=["C03"], vars=_PQR, hyps=["ranked(p)", "ranked(q)", "ranked(r)", "ncmp(p, q) <= 0", "ncmp(q, r) <= 0"],
      goal="ncmp(p, r) <= 0")
lemma("ncmp_meaning", props=["C03"], vars=_PQR[:2], hyps=["ranked(p)", "ranked(q)", "ncmp(p, q) <= 0"],
      goal="fr(p) <= fr(q) and implies(fr(p) == fr(q), cd(p) >= cd(q))")

# nondominated_truncate: de-duplicate designs (set), sort by (front, -crowding), keep the first `size`
define("same_design", ["a", "b"], "seq_eq(a.vector, b.vector)")
contract("artap.operators:nondominated_truncate", props=["C03", "C09", "C20"],
         options={"proved_orders": ["total_preorder:nondominated_cmp"]},
         types={"population": "List[Ref[Individual]]", "size": "Int", "result": "List[Ref[Individual]]"},
         locals={"population": "List[Ref[Individual]]", "result": "List[Ref[Individual]]"},
         ghost_results={"uniq": "List[Ref[Individual]]"},
         requires=["size >= 0", "forall(lambda j: valid(population[j]) and ranked(population[j]) and valid(population[j].vector) and "
                   "len(population[j].vector) >= 1 and forall(lambda t: len(population[t].vector) == len(population[j].vector), 0, len(population)), "
                   "0, len(population))"],
         ensures=[
             "fresh(result)", "unchanged(old(population))",
             # `uniq` (ghost): the de-duplicated pool; result = its first `size` members in (front, -crowding) order
             "len(result) == (size if size < len(uniq) else len(uniq))",
             "forall(lambda i: exists(lambda j: result[i] is old(population)[j], 0, len(old(population))), 0, len(result))",
             "forall(lambda i: exists(lambda j: uniq[i] is old(population)[j], 0, len(old(population))), 0, len(uniq))",
             # each design at most once (no two returned individuals with identical vectors, no object twice)
             "forall(lambda i, j: implies(i != j, result[i] is not result[j] and not same_design(result[i], result[j])), "
             "(0, len(result)), (0, len(result)))",
             # every member of the pool is represented in uniq by the same object or by an equal design (|difference| < 1e-10)
             "forall(lambda j: exists(lambda i: uniq[i] is old(population)[j] or vec_close(uniq[i], old(population)[j]), 0, len(uniq)), "
             "0, len(old(population)))",
             # elitism: every returned individual is at least as good (front, then crowding) as every pool design that was cut
             "forall(lambda i, u: implies(forall(lambda t: result[t] is not uniq[u], 0, len(result)), "
             "fr(result[i]) <= fr(uniq[u]) and implies(fr(result[i]) == fr(uniq[u]), cd(result[i]) >= cd(uniq[u]))), "
             "(0, len(result)), (0, len(uniq)))"],
         ghost={"after:population = list(set(population))": ["uniq = population"]},
         allocates=["$list.Ref", "$len.Ref"])

# binary tournament: a member of the population; of the two drawn candidates never the one with the worse front number nor,
# at equal front numbers, the dominated one
contract("artap.operators:TournamentSelector.select", props=["C03", "C09"],
         types={"individuals": "List[Ref[Individual]]", "result": "Ref[Individual]"},
         locals={"candidates": "List[Ref[Individual]]", "selected": "Ref[Individual]"},
         ghost_results={"cand_a": "Ref[Individual]", "cand_b": "Ref[Individual]"},
         requires=["len(individuals) >= 1", "valid(self.dominance)",
                   "forall(lambda j: valid(individuals[j]) and ranked(individuals[j]) and valid(individuals[j].costs_signed), 0, len(individuals))",
                   "forall(lambda i, j: wfI(individuals[i], individuals[j]) and "
                   "cmp_ok(self.dominance, individuals[i].costs_signed, individuals[j].costs_signed), (0, len(individuals)), (0, len(individuals)))"],
         ensures=["exists(lambda j: result is individuals[j], 0, len(individuals))",
                  "implies(len(individuals) >= 2, "
                  "exists(lambda i, j: i != j and cand_a is individuals[i] and cand_b is individuals[j], (0, len(individuals)), (0, len(individuals))) and "
                  "(result is cand_a or result is cand_b) and "
                  "implies(fr(cand_a) < fr(cand_b), result is cand_a) and implies(fr(cand_b) < fr(cand_a), result is cand_b) and "
                  "implies(fr(cand_a) == fr(cand_b) and acmp(self.dominance, cand_a.costs_signed, cand_b.costs_signed) == 1, result is cand_a) and "
                  "implies(fr(cand_a) == fr(cand_b) and acmp(self.dominance, cand_a.costs_signed, cand_b.costs_signed) == 2, result is cand_b))"],
         ghost={"after:candidates = random.sample(individuals, 2)": ["cand_a = candidates[0]", "cand_b = candidates[1]"]},
         allocates=["$list.Ref", "$len.Ref"])

# ---- crowding distance -----------------------------------------------------------------------------------------------------
define("vd", ["x", "d"], "x.costs_signed[d]")
define("front_wf", ["f"],
       "forall(lambda j: valid(f[j]) and valid(f[j].features) and owner(f[j].features) is f[j] and valid(f[j].costs_signed) and "
       "len(f[j].costs_signed) == len(f[0].costs_signed), 0, len(f)) and implies(len(f) > 0, len(f[0].costs_signed) >= 2)")
define("cd_ok", ["x", "m"], "cd(x) >= 0 and (is_inf(cd(x)) or fin(cd(x)) <= m)")
define("same_members", ["f"],
       "len(f) == old(len(f)) and forall(lambda i: exists(lambda j: f[i] is old(f[j]), 0, old(len(f))), 0, len(f)) and "
       "forall(lambda j: exists(lambda i: f[i] is old(f[j]), 0, len(f)), 0, old(len(f)))")
define("distinct_list", ["f"],
       "forall(lambda i, j: implies(i != j, f[i] is not f[j]), (0, len(f)), (0, len(f)), trig=lambda i, j: (f[i], f[j]))")
# ghost witnesses gmin[d] / gmax[d]: the member that was first / last in the ordering by objective d (a holder of the minimum /
# maximum of that objective); both keep an infinite distance
define("extremes_inf", ["f", "gmin", "gmax", "k"],
       "len(gmin) == k and len(gmax) == k and "
       "forall(lambda d: cd(gmin[d]) == inf and cd(gmax[d]) == inf and valid(gmin[d]) and valid(gmax[d]) and "
       "forall(lambda j: vd(gmin[d], d) <= vd(f[j], d) and vd(gmax[d], d) >= vd(f[j], d), 0, len(f)), 0, k)")
define("gap", ["f", "t", "d", "rng"], "((vd(f[t + 1], d) - vd(f[t - 1], d)) / rng if rng > 0 else 0.0)")
contract("artap.operators:crowding_distance", props=["C03", "C02", "C09", "C18"], options={"float_div": "uninterpreted"},
         types={"front": "List[Ref[Individual]]"},
         locals={"max_distance": "Real", "distance": "Real"},
         ghost_results={"gmin": "Seq[Ref[Individual]]", "gmax": "Seq[Ref[Individual]]"},
         requires=["front_wf(front)", "distinct_list(front)"],
         ensures=["same_members(front)", "distinct_list(front)",
                  "implies(len(front) == 1 or len(front) == 2, forall(lambda i: cd(front[i]) == inf, 0, len(front)))",
                  "implies(len(front) >= 3, forall(lambda i: cd_ok(front[i], len(front[0].costs_signed) - 1), 0, len(front)))",
                  "implies(len(front) >= 3, extremes_inf(front, gmin, gmax, len(front[0].costs_signed) - 1))"],
         loops={1: ["forall(lambda i: cd(front[i]) == 0, 0, _k)"],
                2: ["same_members(front)", "distinct_list(front)", "n == len(front)", "n >= 3", "front_wf(front)",
                    "forall(lambda i: cd_ok(front[i], _k), 0, n)",
                    "extremes_inf(front, gmin, gmax, _k)"],
                3: ["same_members(front)", "distinct_list(front)", "n == len(front)", "n >= 3", "front_wf(front)", "stable(front)",
                    "dim == _k2", "_k3 <= n - 2",
                    "forall(lambda t, u: implies(t <= u, vd(front[t], dim) <= vd(front[u], dim)), (0, n), (0, n))",
                    "max_distance == vd(front[n - 1], dim) - vd(front[0], dim)",
                    "cd(front[0]) == inf and cd(front[n - 1]) == inf",
                    # per-objective step law: every interior member processed so far got exactly the normalised neighbour gap
                    "forall(lambda t: cd(front[t]) == before(cd(front[t])) + gap(front, t, dim, max_distance), 1, 1 + _k3)",
                    "forall(lambda t: cd(front[t]) == before(cd(front[t])), 1 + _k3, n - 1)",
                    "forall(lambda t: cd_ok(front[t], _k2 + 1), 0, n)",
                    "extremes_inf(front, gmin, gmax, _k2 + 1)"]},
         ghost={"before:for dim in range": ["gmin = empty_ref_seq('Individual')", "gmax = empty_ref_seq('Individual')"],
                "after:front[i].features['crowding_distance'] += distance / max_distance": [
                    "assert cd(front[i]) == before(cd(front[i])) + gap(front, i, dim, max_distance)",
                    "assert forall(lambda t: cd(front[t]) == before(cd(front[t])) + gap(front, t, dim, max_distance), 1, i)"],
                "after:front[-1].features['crowding_distance'] = math.inf": ["gmin = seq_append(gmin, front[0])",
                                                                              "gmax = seq_append(gmax, front[n - 1])"]},
         modifies=["list(front)", "each(front).features.crowding_distance"])

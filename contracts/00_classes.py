# Static shapes of the repository's classes, as far as the contracts need them (DESIGN.md appendix C).
classdef("Individual",
         fields={"id": "Int", "vector": "List[Real]", "costs": "List[Real]", "costs_signed": "List[Real]",
                 "state": "Int", "population_id": "Int", "algorithm_id": "Int",
                 "parents": "List[Ref[Individual]]", "children": "List[Ref[Individual]]",
                 "features": "Ref[Features]", "custom": "Ref[Custom]", "ghost_evals": "Int"},
         class_vars={"counter": "Int"},
         statics={"State": {"EMPTY": 0, "IN_PROGRESS": 1, "EVALUATED": 2, "FAILED": 3}})
classdef("Custom", rec=True, fields={})
classdef("Job", fields={"problem": "Ref[Problem]"})
classdef("VectorAndNumbers", fields={})

classdef("Features", rec=True,
         fields={"front_number": "Opt[Int]", "domination_counter": "Int", "dominate": "List[Int]",
                 "feasible": "Real", "precision": "Int", "start_time": "Real", "finish_time": "Real",
                 "velocity": "List[Real]", "best_cost": "List[Real]", "best_vector": "List[Real]",
                 "sensitivity": "Real", "crowding_distance": "ExtReal", "gradient": "List[Real]"})

classdef("Dominance", fields={})
classdef("ParetoDominance", bases=["Dominance"], fields={})
classdef("EpsilonDominance", bases=["Dominance"], fields={"epsilons": "List[Real]"})

classdef("Archive", fields={"_dominance": "Ref[Dominance]", "_contents": "List[Ref[Individual]]"}, truth_len="_contents")

classdef("Parameter", rec=True, optional=["bounds", "precision", "parameter_type", "initial_value", "tol"],
         fields={"bounds": "List[Real]", "precision": "Real", "tol": "Real", "initial_value": "Real", "name": "Str", "parameter_type": "Str"})
classdef("Options", rec=True,
         fields={"max_population_size": "Int", "max_population_number": "Int", "max_processes": "Int", "algorithm": "Str",
                 "tol": "Real", "bounds": "Opt[List[Real]]", "n_iterations": "Int", "verbose_level": "Int"})
classdef("Algorithm", fields={"parameters": "List[Ref[Parameter]]", "options": "Ref[Options]", "problem": "Ref[Problem]",
                              "evaluator": "Ref[Evaluator]", "uuid": "Int"})
classdef("GeneticAlgorithm", bases=["Algorithm"],
         fields={"selector": "Ref[TournamentSelector]", "crossover": "Ref[SimulatedBinaryCrossover]", "mutator": "Ref[PmMutator]"})
classdef("SwarmAlgorithm", bases=["GeneticAlgorithm"],
         fields={"dominance": "Ref[ParetoDominance]", "leaders": "Ref[Archive]", "archive": "Ref[Archive]",
                 "r1_min": "Real", "r1_max": "Real", "r2_min": "Real", "r2_max": "Real",
                 "c1_min": "Real", "c1_max": "Real", "c2_min": "Real", "c2_max": "Real",
                 "min_weight": "Real", "max_weight": "Real", "n": "Int"})
classdef("OMOPSO", bases=["SwarmAlgorithm"],
         fields={"uniform_mutator": "Ref[UniformMutator]", "non_uniform_mutator": "Ref[NonUniformMutation]"})
classdef("SMPSO", bases=["SwarmAlgorithm"], fields={})
classdef("PSOGA", bases=["SwarmAlgorithm"], fields={})
# ghost_* fields are specification-only state (the objective call log of C05/C06/C19): number of calls of the user's
# objective, and argument / vector list / returned list of the most recent call
classdef("Cost", rec=True, optional=["criteria"], fields={"name": "Str", "criteria": "Str"})
classdef("Problem", fields={"costs": "List[Ref[Cost]]", "parameters": "List[Ref[Parameter]]", "individuals": "List[Ref[Individual]]",
                            "failed": "List[Ref[Individual]]", "signs": "List[Int]", "surrogate": "Ref[SurrogateModel]",
                            "data_store": "Ref[DataStore]", "has_predict": "Bool",
                            "ghost_calls": "Int", "ghost_last_arg": "Ref[Individual]", "ghost_last_vec": "List[Real]",
                            "ghost_last_ret": "List[Real]", "ghost_last_g": "List[Real]", "ghost_last_g_vec": "List[Real]", "ghost_nontransient": "Int", "ghost_ncosts": "Int"})
classdef("DataStore", fields={})
classdef("SurrogateModel", fields={"problem": "Ref[Problem]", "x_data": "List[List[Real]]", "y_data": "List[List[Real]]",
                                   "trained": "Bool", "eval_counter": "Int", "predict_counter": "Int", "train_step": "Int",
                                   "regressor": "Opt[Ref[Regressor]]", "ghost_trains": "Int", "passthrough": "Bool"})
classdef("Regressor", fields={})
classdef("SurrogateModelPredict", bases=["SurrogateModel"], fields={})
classdef("SurrogateModelEval", bases=["SurrogateModel"], fields={})
classdef("Evaluator", fields={"algorithm": "Ref[Algorithm]", "individuals": "List[Ref[Individual]]", "job": "Ref[Job]"})


classdef("Generator", fields={"parameters": "List[Ref[Parameter]]", "number": "Int"})
classdef("SweepAlgorithm", bases=["GeneticAlgorithm"], fields={"generator": "Ref[Generator]"})
classdef("ScipyOpt", bases=["Algorithm"], fields={})
classdef("NLopt", bases=["Algorithm"], fields={})
classdef("NloptOpt", fields={})
classdef("GradientEvaluator", bases=["Evaluator"], fields={"delta": "Real", "to_evaluate": "List[Ref[Individual]]", "n": "Int"})
classdef("WorstCaseEvaluator", bases=["Evaluator"], fields={"to_evaluate": "List[Ref[Individual]]", "n": "Int"})
classdef("BenchmarkFunction", bases=["Problem"], fields={"dimension": "Int"})
for _c in ("DTLZI", "DTLZII", "DTLZIII", "DTLZIV", "ZDT1", "BiObjectiveTestProblem"):
    classdef(_c, bases=["BenchmarkFunction"], fields={})
classdef("Results", fields={"problem": "Ref[Problem]"})
classdef("Selector", fields={"parameters": "List[Ref[Parameter]]", "comparator": "Ref[Dominance]", "dominance": "Ref[Dominance]"})
classdef("TournamentSelector", bases=["Selector"], fields={})
classdef("CopySelector", bases=["Selector"], fields={})
classdef("Operator", fields={})
classdef("Mutator", bases=["Operator"], fields={"parameters": "List[Ref[Parameter]]", "probability": "Real"})
classdef("PmMutator", bases=["Mutator"], fields={"distribution_index": "Real"})
classdef("UniformMutator", bases=["Mutator"], fields={"perturbation": "Real"})
classdef("NonUniformMutation", bases=["Mutator"], fields={"perturbation": "Real", "max_iterations": "Int"})
classdef("Crossover", bases=["Operator"], fields={"parameters": "List[Ref[Parameter]]", "probability": "Real"})
classdef("SimulatedBinaryCrossover", bases=["Crossover"], fields={"distribution_index": "Real"})
for _c in ("RandomGenerator", "UniformGenerator", "LHSGenerator", "HaltonGenerator"):
    classdef(_c, bases=["Generator"], fields={})
# ---- sqlite model (C10/C11): a connection counts the statements executed since its last commit (ghost) ------------------
classdef("SqlConn", fields={"ghost_journal_off": "Bool", "ghost_pending": "Int", "ghost_commits": "Int", "ghost_stmts": "Int", "ghost_last_sql": "Str",
                            "ghost_last_id": "Int", "ghost_last_doc": "Ref[IndDoc]", "ghost_ids": "List[Int]"})
classdef("SqlCursor", fields={"conn": "Ref[SqlConn]"})
classdef("IndDoc", fields={"ghost_of": "Ref[Individual]", "ghost_costs": "List[Real]", "ghost_vector": "List[Real]"})
classdef("SqliteDataStore", bases=["DataStore"],
         fields={"problem": "Ref[Problem]", "mode": "Str", "thread_safe": "Bool", "database_name": "Str", "_conn": "Opt[Ref[SqlConn]]"})

# Static shapes of the repository's classes, as far as the contracts need them (DESIGN.md appendix C).
classdef("Individual",
         fields={"id": "Int", "vector": "List[Real]", "costs": "List[Real]", "costs_signed": "List[Real]",
                 "state": "Int", "population_id": "Int", "algorithm_id": "Int",
                 "parents": "List[Ref[Individual]]", "children": "List[Ref[Individual]]",
                 "features": "Ref[Features]"},
         statics={"State": {"EMPTY": 0, "IN_PROGRESS": 1, "EVALUATED": 2, "FAILED": 3}})

classdef("Features", rec=True,
         fields={"front_number": "Opt[Int]", "domination_counter": "Int", "dominate": "List[Int]",
                 "feasible": "Real", "precision": "Int", "start_time": "Real", "finish_time": "Real",
                 "velocity": "List[Real]", "best_cost": "List[Real]", "best_vector": "List[Real]",
                 "sensitivity": "Real"})

classdef("Dominance", fields={})
classdef("ParetoDominance", bases=["Dominance"], fields={})
classdef("EpsilonDominance", bases=["Dominance"], fields={"epsilons": "List[Real]"})

classdef("Archive", fields={"_dominance": "Ref[Dominance]", "_contents": "List[Ref[Individual]]"})

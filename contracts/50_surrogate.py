# ---- C19: surrogate wrapper: true values unless predicting; exact accounting ------------------------------------
# A2: the user's objective returns a fresh list and mutates nothing the framework owns; the ghost log records the call.
contract("Problem.evaluate", abstract=True, params=["self", "individual"], props=["C19", "C05", "C06", "C14"],
         trusted="A2 user-supplied objective",
         types={"self": "Ref[Problem]", "individual": "Ref[Individual]", "result": "List[Real]"},
         ensures=["fresh(result)", "self.ghost_calls == old(self.ghost_calls) + 1", "self.ghost_last_arg is individual",
                  "self.ghost_last_vec is individual.vector", "self.ghost_last_ret is result"],
         raises={"TimeoutError": ["self.ghost_calls == old(self.ghost_calls) + 1", "self.ghost_last_arg is individual"],
                 "RuntimeError": ["self.ghost_calls == old(self.ghost_calls) + 1", "self.ghost_last_arg is individual"],
                 "OtherError": ["self.ghost_calls == old(self.ghost_calls) + 1", "self.ghost_last_arg is individual",
                                "self.ghost_nontransient == old(self.ghost_nontransient) + 1"]},
         modifies=["self.ghost_calls", "self.ghost_last_arg", "self.ghost_last_vec", "self.ghost_last_ret", "self.ghost_nontransient"],
         allocates=["$list.Real", "$len.Real"])
contract("Problem.predict", abstract=True, params=["self", "individual"], props=["C19"],
         trusted="A2 user-supplied predict hook (may decline by returning None)",
         types={"self": "Ref[Problem]", "individual": "Ref[Individual]", "result": "Opt[List[Real]]"},
         ensures=["implies(not is_none(result), fresh(result))"], allocates=["$list.Real", "$len.Real"])
contract("SurrogateModel.train", abstract=True, params=["self"], props=["C19"],
         trusted="abstract contract of train() in the scikit / SMT subclasses: marks the model trained, leaves data and counters alone",
         types={"self": "Ref[SurrogateModel]"},
         ensures=["self.trained", "self.ghost_trains == old(self.ghost_trains) + 1"],
         modifies=["self.trained", "self.ghost_trains", "self.regressor"])
contract("SurrogateModel.init_default_regressor", abstract=True, params=["self"], props=["C19"],
         trusted="subclass hook: creates the default regressor", types={"self": "Ref[SurrogateModel]"},
         ensures=[], modifies=["self.regressor"], allocates=[])

contract("artap.surrogate:SurrogateModel.add_data", props=["C19"],
         types={"x": "List[Real]", "y": "List[Real]"},
         requires=["self.x_data is not self.y_data"],
         ensures=["len(self.x_data) == old(len(self.x_data)) + 1", "len(self.y_data) == old(len(self.y_data)) + 1",
                  "self.x_data[len(self.x_data) - 1] is x", "self.y_data[len(self.y_data) - 1] is y",
                  "forall(lambda i: self.x_data[i] is old(self.x_data[i]), 0, old(len(self.x_data)))",
                  "forall(lambda i: self.y_data[i] is old(self.y_data[i]), 0, old(len(self.y_data)))"],
         modifies=["list(self.x_data)", "list(self.y_data)"])

contract("artap.surrogate:SurrogateModelEval.evaluate", props=["C19", "C05"],
         types={"individual": "Ref[Individual]", "result": "List[Real]"},
         requires=["valid(self.problem)"],
         ensures=["self.eval_counter == old(self.eval_counter) + 1", "self.predict_counter == old(self.predict_counter)",
                  "self.problem.ghost_calls == old(self.problem.ghost_calls) + 1",
                  "seq_eq(result, self.problem.ghost_last_ret)", "self.problem.ghost_last_arg is individual",
                  "self.problem.ghost_last_vec is individual.vector"],
         raises={e: ["self.problem.ghost_calls == old(self.problem.ghost_calls) + 1"] for e in ("TimeoutError", "RuntimeError", "OtherError")},
         modifies=["self.eval_counter", "self.problem.ghost_calls", "self.problem.ghost_last_arg", "self.problem.ghost_last_vec",
                   "self.problem.ghost_last_ret", "self.problem.ghost_nontransient"],
         allocates=["$list.Real", "$len.Real"])

_TRAIN_DUE = "(self.train_step != -1 and self.eval_counter % self.train_step == 0)"
_EI_ENS = ["self.problem.ghost_calls == old(self.problem.ghost_calls) + 1", "seq_eq(result, self.problem.ghost_last_ret)",
           "self.problem.ghost_last_arg is individual",
           "self.eval_counter == old(self.eval_counter) + 1", "self.predict_counter == old(self.predict_counter)",
           "len(self.x_data) == old(len(self.x_data)) + 1", "len(self.y_data) == old(len(self.y_data)) + 1",
           "seq_eq(self.x_data[len(self.x_data) - 1], individual.vector)", "seq_eq(self.y_data[len(self.y_data) - 1], self.problem.ghost_last_ret)",
           "forall(lambda i: self.x_data[i] is old(self.x_data[i]), 0, old(len(self.x_data)))",
           "forall(lambda i: self.y_data[i] is old(self.y_data[i]), 0, old(len(self.y_data)))",
           "self.ghost_trains == old(self.ghost_trains) + (1 if %s else 0)" % _TRAIN_DUE]
_EI_MOD = ["self.eval_counter", "self.trained", "self.ghost_trains", "self.regressor", "list(self.x_data)", "list(self.y_data)",
           "self.problem.ghost_calls", "self.problem.ghost_last_arg", "self.problem.ghost_last_vec", "self.problem.ghost_last_ret",
           "self.problem.ghost_nontransient"]
_EI_REQ = ["valid(self.problem)", "self.train_step != 0", "self.x_data is not self.y_data", "valid(self.x_data)", "valid(self.y_data)"]
_EI_RAISES = {e: ["self.problem.ghost_calls == old(self.problem.ghost_calls) + 1", "self.eval_counter == old(self.eval_counter)",
                  "unchanged(self.x_data)", "unchanged(self.y_data)"] for e in ("TimeoutError", "RuntimeError", "OtherError")}
contract("artap.surrogate:SurrogateModelPredict.evaluate_individual", props=["C19"],
         types={"individual": "Ref[Individual]", "result": "List[Real]"},
         requires=_EI_REQ, ensures=_EI_ENS, raises=_EI_RAISES, modifies=_EI_MOD, allocates=["$list.Real", "$len.Real"])

contract("artap.surrogate:SurrogateModelPredict.evaluate", props=["C19"],
         types={"individual": "Ref[Individual]", "result": "List[Real]"},
         locals={"values": "Opt[List[Real]]"},
         requires=_EI_REQ + ["self.problem.surrogate is self"],
         ensures=[
             # one of the two counters moves, by exactly one
             "self.eval_counter + self.predict_counter == old(self.eval_counter) + old(self.predict_counter) + 1",
             # a prediction is used only when the model was trained and the problem has a predict hook
             "implies(self.predict_counter != old(self.predict_counter), old(self.trained) and self.problem.has_predict and "
             "self.problem.ghost_calls == old(self.problem.ghost_calls) and unchanged(self.x_data) and unchanged(self.y_data) "
             "and self.ghost_trains == old(self.ghost_trains))",
             # otherwise: exactly one true evaluation, returned unchanged, recorded once, retrained when due
             "implies(self.predict_counter == old(self.predict_counter), "
             "self.problem.ghost_calls == old(self.problem.ghost_calls) + 1 and seq_eq(result, self.problem.ghost_last_ret) and "
             "self.problem.ghost_last_arg is individual and len(self.x_data) == old(len(self.x_data)) + 1 and "
             "len(self.y_data) == old(len(self.y_data)) + 1 and seq_eq(self.x_data[len(self.x_data) - 1], individual.vector) and "
             "seq_eq(self.y_data[len(self.y_data) - 1], self.problem.ghost_last_ret) and "
             "self.ghost_trains == old(self.ghost_trains) + (1 if %s else 0))" % _TRAIN_DUE,
             "implies(not old(self.trained) or not self.problem.has_predict, self.predict_counter == old(self.predict_counter))"],
         raises=_EI_RAISES,
         modifies=_EI_MOD + ["self.predict_counter"], allocates=["$list.Real", "$len.Real"])

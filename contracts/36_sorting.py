# ---- C02: non-dominated sorting -----------------------------------------------------------------------------------------
# Spec (from the property): with D(y, x) := the comparator reports that y dominates x,
#   front[x] >= 1;  front[x] == 1  <=>  nobody dominates x;
#   front[x] > 1   =>  every dominator has a smaller front number and some dominator has front[x] - 1.
define("Dom", ["s", "y", "x"], "acmp(s.comparator, y.costs_signed, x.costs_signed) == 1")
define("rank_spec", ["s", "X"],
       "forall(lambda a: not is_none(fr(X[a])) and fr(X[a]) >= 1 and "
       "((fr(X[a]) == 1) == (not exists(lambda b: Dom(s, X[b], X[a]), 0, len(X)))) and "
       "implies(fr(X[a]) > 1, forall(lambda b: implies(Dom(s, X[b], X[a]), fr(X[b]) < fr(X[a])), 0, len(X)) and "
       "exists(lambda b: Dom(s, X[b], X[a]) and fr(X[b]) == fr(X[a]) - 1, 0, len(X))), 0, len(X))")
define("pop_wf", ["s", "X"],
       "valid(s.comparator) and forall(lambda a: valid(X[a]) and valid(X[a].features) and owner(X[a].features) is X[a] and "
       "valid(X[a].costs_signed), 0, len(X)) and "
       "forall(lambda a, b: implies(a != b, X[a] is not X[b] and X[a].id != X[b].id), (0, len(X)), (0, len(X)), trig=lambda a, b: (X[a], X[b])) and "
       "forall(lambda a, b: wfI(X[a], X[b]) and cmp_ok(s.comparator, X[a].costs_signed, X[b].costs_signed), (0, len(X)), (0, len(X)))")

# id lookup used by the peeling phase
contract("artap.operators:Selector.individual", props=["C02"],
         types={"polulation": "List[Ref[Individual]]", "id": "Int", "result": "Opt[Ref[Individual]]"},
         requires=["forall(lambda a: valid(polulation[a]), 0, len(polulation))"],
         ensures=["implies(is_none(result), forall(lambda a: polulation[a].id != id, 0, len(polulation)))",
                  "implies(not is_none(result), exists(lambda a: result is polulation[a] and polulation[a].id == id and "
                  "forall(lambda b: polulation[b].id != id, 0, a), 0, len(polulation)))"],
         loops={1: ["forall(lambda a: polulation[a].id != id, 0, _k)"]}, pure=False)

# consequences of rank_spec stated by the property (pure first-order lemmas over the postcondition)
_SX = [("s", "Ref[Selector]"), ("X", "List[Ref[Individual]]")]
lemma("front_one_is_nondominated_set", props=["C02"], vars=_SX + [("a", "Int")], hyps=["rank_spec(s, X)", "0 <= a and a < len(X)"],
      goal="(fr(X[a]) == 1) == (not exists(lambda b: Dom(s, X[b], X[a]), 0, len(X)))")
lemma("same_front_never_dominates", props=["C02"], vars=_SX + [("a", "Int"), ("b", "Int")],
      hyps=["rank_spec(s, X)", "0 <= a and a < len(X)", "0 <= b and b < len(X)", "fr(X[a]) == fr(X[b])"],
      goal="not Dom(s, X[b], X[a])")
lemma("nobody_unranked", props=["C02"], vars=_SX + [("a", "Int")], hyps=["rank_spec(s, X)", "0 <= a and a < len(X)"],
      goal="not is_none(fr(X[a])) and fr(X[a]) >= 1")

# The sorter itself: the staged invariant proof (pairwise phase with ghost dominator lists, peeling phase, minimal-element lemma)
# of DESIGN.md 5/C02 has not been discharged; the complete Spec is evaluated at run time on the real function over ALL order
# types of small populations (bounded, never counted as proved). At call sites the contract is an assumed one.
contract("artap.operators:Selector.fast_nondominated_sorting", props=["C02", "C09", "C18"], options={"bounded_only": True},
         trusted="bounded: checked exhaustively at run time over all order types of populations with n <= 4 (m <= 2) only",
         types={"individuals": "List[Ref[Individual]]"},
         requires=["pop_wf(self, individuals)"],
         ensures=["rank_spec(self, individuals)", "unchanged(individuals)",
                  "forall(lambda a: cd_ok(individuals[a], len(individuals[a].costs_signed) - 1), 0, len(individuals))"],
         modifies=["each(individuals).features.front_number", "each(individuals).features.domination_counter",
                   "each(individuals).features.dominate", "each(individuals).features.crowding_distance", "$list.Int", "$len.Int"],
         allocates=["$list.Ref", "$len.Ref", "$list.Int", "$len.Int"])

# ---- C02: non-dominated sorting -----------------------------------------------------------------------------------------
# Spec (from the property): with D(y, x) := the comparator reports that y dominates x,
#   front[x] >= 1;  front[x] == 1  <=>  nobody dominates x;
#   front[x] > 1   =>  every dominator has a smaller front number and some dominator has front[x] - 1.
define("Dom", ["s", "y", "x"], "acmp(s.comparator, y.costs_signed, x.costs_signed) == 1")
define("rank_spec", ["s", "X"],
       "forall(lambda a: not is_none(fr(X[a])) and fr(X[a]) >= 1 and "
       "((fr(X[a]) == 1) == (not exists(lambda b: Dom(s, X[b], X[a]), 0, len(X)))) and "
       "implies(fr(X[a]) > 1, forall(lambda b: implies(Dom(s, X[b], X[a]), fr(X[b]) < fr(X[a])), 0, len(X)) and "
       "exists(lambda b: Dom(s, X[b], X[a]) and fr(X[b]) == fr(X[a]) - 1, 0, len(X))), 0, len(X))")
define("pop_wf", ["s", "X"],
       "valid(s.comparator) and forall(lambda a: valid(X[a]) and valid(X[a].features) and owner(X[a].features) is X[a] and "
       "valid(X[a].costs_signed), 0, len(X)) and "
       "forall(lambda a, b: implies(a != b, X[a] is not X[b] and X[a].id != X[b].id), (0, len(X)), (0, len(X)), trig=lambda a, b: (X[a], X[b])) and "
       "forall(lambda a, b: wfI(X[a], X[b]) and cmp_ok(s.comparator, X[a].costs_signed, X[b].costs_signed), (0, len(X)), (0, len(X))) and "
       "forall(lambda a: len(X[a].costs_signed) == len(X[0].costs_signed) and len(X[a].costs_signed) >= 2, 0, len(X))")

# id lookup used by the peeling phase
contract("artap.operators:Selector.individual", props=["C02"],
         types={"polulation": "List[Ref[Individual]]", "id": "Int", "result": "Opt[Ref[Individual]]"},
         requires=["forall(lambda a: valid(polulation[a]), 0, len(polulation))"],
         ensures=["implies(is_none(result), forall(lambda a: polulation[a].id != id, 0, len(polulation)))",
                  "implies(not is_none(result), exists(lambda a: result is polulation[a] and polulation[a].id == id and "
                  "forall(lambda b: polulation[b].id != id, 0, a), 0, len(polulation)))"],
         loops={1: ["forall(lambda a: polulation[a].id != id, 0, _k)"]}, pure=False)

# consequences of rank_spec stated by the property (pure first-order lemmas over the postcondition)
_SX = [("s", "Ref[Selector]"), ("X", "List[Ref[Individual]]")]
lemma("front_one_is_nondominated_set", props=["C02"], vars=_SX + [("a", "Int")], hyps=["rank_spec(s, X)", "0 <= a and a < len(X)"],
      goal="(fr(X[a]) == 1) == (not exists(lambda b: Dom(s, X[b], X[a]), 0, len(X)))")
lemma("same_front_never_dominates", props=["C02"], vars=_SX + [("a", "Int"), ("b", "Int")],
      hyps=["rank_spec(s, X)", "0 <= a and a < len(X)", "0 <= b and b < len(X)", "fr(X[a]) == fr(X[b])"],
      goal="not Dom(s, X[b], X[a])")
lemma("nobody_unranked", props=["C02"], vars=_SX + [("a", "Int")], hyps=["rank_spec(s, X)", "0 <= a and a < len(X)"],
      goal="not is_none(fr(X[a])) and fr(X[a]) >= 1")

# The sorter itself: the staged invariant proof (pairwise phase with ghost dominator lists, peeling phase, minimal-element lemma)
# of DESIGN.md 5/C02 has not been discharged; the complete Spec is evaluated at run time on the real function over ALL order
# types of small populations (bounded, never counted as proved). At call sites the contract is an assumed one.
contract("artap.operators:Selector.fast_nondominated_sorting", props=["C02", "C09", "C18"], options={"bounded_only": True},
         trusted="bounded: checked exhaustively at run time over all order types of populations with n <= 4 (m <= 2) only",
         types={"individuals": "List[Ref[Individual]]"},
         requires=["pop_wf(self, individuals)"],
         ensures=["rank_spec(self, individuals)", "unchanged(individuals)",
                  "forall(lambda a: cd_ok(individuals[a], len(individuals[a].costs_signed) - 1), 0, len(individuals))"],
         modifies=["each(individuals).features.front_number", "each(individuals).features.domination_counter",
                   "each(individuals).features.dominate", "each(individuals).features.crowding_distance", "$list.Int", "$len.Int"],
         allocates=["$list.Ref", "$len.Ref", "$list.Int", "$len.Int"])

# ---- deductive part of C02: front 1 is EXACTLY the non-dominated subset (and no front number is below 1) -----------------------
# proved for every population and input order with weak counter invariants (no cardinalities needed):
#   counter[x] >= 0  and  (counter[x] == 0  <=>  no pair compared so far shows a dominator of x)
define("cnt", ["x"], "x.features['domination_counter']")
define("doml", ["x"], "x.features['dominate']")
# the sorter only ever evaluates compare(X[min], X[max]); it reads verdict 1 as "the earlier one dominates" and verdict 2 as "the later
# one dominates".  domidx is that reading (comparator-agnostic); for the Pareto comparator it coincides with Dom (lemmas below).
define("domidx", ["s", "X", "b", "c"],
       "(b < c and acmp(s.comparator, X[b].costs_signed, X[c].costs_signed) == 1) or "
       "(c < b and acmp(s.comparator, X[c].costs_signed, X[b].costs_signed) == 2)")
define("nondom", ["s", "X", "c"], "not exists(lambda b: domidx(s, X, b, c), 0, len(X))")
_PQ = [("p", "List[Real]"), ("q", "List[Real]")]
lemma("pareto_verdict_2_means_other_dominates", props=["C02"], vars=_PQ, hyps=["wf2(p, q)", "pareto_spec(p, q) == 2"], goal="pareto_spec(q, p) == 1")
lemma("pareto_verdict_1_means_other_is_dominated", props=["C02"], vars=_PQ, hyps=["wf2(p, q)", "pareto_spec(q, p) == 1"], goal="pareto_spec(p, q) == 2")
lemma("pareto_never_dominates_itself", props=["C02"], vars=_PQ[:1], hyps=["len(p) >= 2"], goal="pareto_spec(p, p) != 1")
# pair {b, c} has been compared when the outer loop is at row i and the inner loop at column j
define("seen2", ["b", "c", "i", "j"], "(b < c and (b < i or (b == i and c < j))) or (c < b and (c < i or (c == i and b < j)))")
define("domseen", ["s", "X", "c", "i", "j"], "exists(lambda b: domidx(s, X, b, c) and seen2(b, c, i, j), 0, len(X))")
define("cnt_inv", ["s", "X", "i", "j"],
       "forall(lambda c: cnt(X[c]) >= 0 and ((cnt(X[c]) == 0) == (not domseen(s, X, c, i, j))), 0, len(X))")
define("doml_wf", ["X", "n"],
       "forall(lambda c: valid(doml(X[c])) and fresh(doml(X[c])), 0, n) and "
       "forall(lambda c, d: implies(c != d, doml(X[c]) is not doml(X[d])), (0, n), (0, n)) and "
       "forall(lambda c: forall(lambda t: exists(lambda b: doml(X[c])[t] == X[b].id, 0, len(X)), 0, len(doml(X[c]))), 0, n)")
# every entry of x's `dominate` list is the id of a member that x dominates (in the sorter's reading of the verdicts)
define("doml_sound", ["s", "X"],
       "forall(lambda c: forall(lambda t: exists(lambda b: doml(X[c])[t] == X[b].id and domidx(s, X, c, b), 0, len(X)), "
       "0, len(doml(X[c]))), 0, len(X))")
# every member of a later front is dominated by a member of the previous front: a front number never exceeds the true rank
define("prev_dom", ["s", "X"],
       "forall(lambda c: implies(not is_none(fr(X[c])) and fr(X[c]) > 1, "
       "exists(lambda b: domidx(s, X, b, c) and not is_none(fr(X[b])) and fr(X[b]) == fr(X[c]) - 1, 0, len(X))), 0, len(X))")
define("front1_exact", ["s", "X"], "forall(lambda c: (not is_none(fr(X[c])) and fr(X[c]) == 1) == nondom(s, X, c), 0, len(X))")
define("fronts_pos", ["X"], "forall(lambda c: is_none(fr(X[c])) or fr(X[c]) >= 1, 0, len(X))")
# the front lists: members of the population that carry a front number, no member twice
define("pf_wf", ["pf", "X"],
       "fresh(pf) and pf is not X and forall(lambda k: valid(pf[k]) and fresh(pf[k]) and pf[k] is not pf and pf[k] is not X, 0, len(pf)) and "
       "forall(lambda k, l: implies(k != l, pf[k] is not pf[l]), (0, len(pf)), (0, len(pf))) and "
       "forall(lambda k: forall(lambda t: not is_none(fr(pf[k][t])) and fr(pf[k][t]) == k + 1 and exists(lambda c: pf[k][t] is X[c], 0, len(X)), "
       "0, len(pf[k])), 0, len(pf)) and "
       "forall(lambda k: forall(lambda t, u: implies(t != u, pf[k][t] is not pf[k][u]), (0, len(pf[k])), (0, len(pf[k]))), 0, len(pf)) and "
       "forall(lambda k: forall(lambda t: len(pf[k][t].costs_signed) == len(X[0].costs_signed), 0, len(pf[k])), 0, len(pf))")
_FMOD = ["each(individuals).features.front_number", "each(individuals).features.domination_counter",
         "each(individuals).features.dominate", "each(individuals).features.crowding_distance", "$list.Int", "$len.Int"]
contract("artap.operators:Selector.fast_nondominated_sorting#front1", props=["C02"],
         types={"individuals": "List[Ref[Individual]]"},
         locals={"pareto_front": "List[List[Ref[Individual]]]", "front_number": "Int", "p": "Ref[Individual]", "q": "Ref[Individual]",
                 "dom": "Int", "individual_id": "Int", "sub_front": "List[Ref[Individual]]", "individual": "Ref[Individual]"},
         requires=["pop_wf(self, individuals)"],
         ensures=["front1_exact(self, individuals)", "fronts_pos(individuals)", "prev_dom(self, individuals)", "unchanged(individuals)"],
         loops={
             1: ["unchanged(individuals)", "fresh(pareto_front)", "len(pareto_front) == 1", "valid(pareto_front[0])", "fresh(pareto_front[0])",
                 "len(pareto_front[0]) == 0", "front_number == 1",
                 "forall(lambda c: cnt(individuals[c]) == 0 and is_none(fr(individuals[c])) and len(doml(individuals[c])) == 0, 0, _k)",
                 "doml_wf(individuals, _k)"],
             2: ["unchanged(individuals)", "front_number == 1", "len(pareto_front) == 1", "pf_wf(pareto_front, individuals)",
                 "doml_wf(individuals, len(individuals))", "doml_sound(self, individuals)", "cnt_inv(self, individuals, _k, 0)",
                 "forall(lambda c: (not is_none(fr(individuals[c])) and fr(individuals[c]) == 1) == nondom(self, individuals, c), 0, _k)",
                 "forall(lambda c: is_none(fr(individuals[c])) or fr(individuals[c]) == 1, 0, len(individuals))",
                 "forall(lambda c: is_none(fr(individuals[c])), _k, len(individuals))"],
             3: ["unchanged(individuals)", "front_number == 1", "len(pareto_front) == 1", "pf_wf(pareto_front, individuals)",
                 "i == _k2", "_k2 < len(individuals)", "p is individuals[_k2]", "_k3 <= len(individuals) - i - 1",
                 "doml_wf(individuals, len(individuals))", "doml_sound(self, individuals)", "cnt_inv(self, individuals, i, i + 1 + _k3)",
                 "forall(lambda c: (not is_none(fr(individuals[c])) and fr(individuals[c]) == 1) == nondom(self, individuals, c), 0, i)",
                 "forall(lambda c: is_none(fr(individuals[c])) or fr(individuals[c]) == 1, 0, len(individuals))",
                 "forall(lambda c: is_none(fr(individuals[c])), i, len(individuals))"],
             4: ["unchanged(individuals)", "front_number >= 1", "len(pareto_front) == front_number", "pf_wf(pareto_front, individuals)",
                 "doml_wf(individuals, len(individuals))", "doml_sound(self, individuals)", "prev_dom(self, individuals)",
                 "front1_exact(self, individuals)", "fronts_pos(individuals)"],
             5: ["unchanged(individuals)", "front_number >= 2", "len(pareto_front) == front_number", "pf_wf(pareto_front, individuals)",
                 "doml_wf(individuals, len(individuals))", "doml_sound(self, individuals)", "prev_dom(self, individuals)",
                 "front1_exact(self, individuals)", "fronts_pos(individuals)",
                 "_it is pareto_front[front_number - 2]", "_k <= len(_it)", "stable(_it)", "pareto_front is not individuals", "pareto_front[front_number - 1] is not individuals",
                 "pareto_front[front_number - 2] is not individuals", "pareto_front[front_number - 1] is not pareto_front[front_number - 2]",
                 "pareto_front[front_number - 1] is not pareto_front", "pareto_front[front_number - 2] is not pareto_front"],
             6: ["unchanged(individuals)", "front_number >= 2", "len(pareto_front) == front_number", "pf_wf(pareto_front, individuals)",
                 "doml_wf(individuals, len(individuals))", "doml_sound(self, individuals)", "prev_dom(self, individuals)",
                 "front1_exact(self, individuals)", "fronts_pos(individuals)",
                 "_it5 is pareto_front[front_number - 2]", "_k5 < len(_it5)", "stable(_it5)", "p is _it5[_k5]",
                 "_k6 <= len(doml(p))", "pareto_front is not individuals", "pareto_front[front_number - 1] is not individuals",
                 "pareto_front[front_number - 2] is not individuals", "pareto_front[front_number - 1] is not pareto_front[front_number - 2]",
                 "pareto_front[front_number - 1] is not pareto_front", "pareto_front[front_number - 2] is not pareto_front"],
             7: ["unchanged(individuals)", "front1_exact(self, individuals)", "fronts_pos(individuals)", "prev_dom(self, individuals)",
                 "stable(pareto_front)",
                 "_k <= len(pareto_front)",
                 "forall(lambda k: valid(pareto_front[k]) and pareto_front[k] is not pareto_front and front_wf(pareto_front[k]) and "
                 "distinct_list(pareto_front[k]) and forall(lambda t: exists(lambda c: pareto_front[k][t] is individuals[c], 0, len(individuals)), "
                 "0, len(pareto_front[k])), _k, len(pareto_front))",
                 "forall(lambda k, l: implies(k != l, pareto_front[k] is not pareto_front[l]), (0, len(pareto_front)), (0, len(pareto_front)))"]},
         ghost={"after:q = self.individual(individuals, individual_id)": [
                    "assert not is_none(q)", "assert len(q.costs_signed) == len(individuals[0].costs_signed)",
                    "assert not is_none(fr(p)) and fr(p) == front_number - 1",
                    "assert exists(lambda c, b: p is individuals[c] and q is individuals[b] and domidx(self, individuals, c, b), "
                    "(0, len(individuals)), (0, len(individuals)))"],
                "after:p.features['front_number'] = front_number": [
                    "assert len(p.costs_signed) == len(individuals[0].costs_signed)"]},
         modifies=_FMOD, allocates=["$list.Ref", "$len.Ref", "$list.Int", "$len.Int"])

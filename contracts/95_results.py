# ---- C17: quality indicators and result queries --------------------------------------------------------------------------
# additive epsilon indicator: max(0, max over reference points r of min over computed points c of max_i (c_i - r_i))
define("shift_le", ["c", "r", "e"], "forall(lambda i: c[i] - r[i] <= e, 0, len(r))")
define("shift_ge_some", ["c", "r", "e"], "exists(lambda i: c[i] - r[i] >= e, 0, len(r))")
define("pts_wf", ["R", "C"],
       "len(C) >= 1 and forall(lambda j: valid(R[j]) and len(R[j]) >= 1, 0, len(R)) and "
       "forall(lambda k: valid(C[k]) and forall(lambda j: len(C[k]) == len(R[j]), 0, len(R)), 0, len(C))")
# eps_j(r) <= e  iff some computed point is within e of r in every coordinate;  eps_j(r) >= e iff every computed point is >= e in some coordinate
define("epsj_le", ["C", "r", "e"], "exists(lambda k: shift_le(C[k], r, e), 0, len(C))")
define("epsj_ge", ["C", "r", "e"], "forall(lambda k: shift_ge_some(C[k], r, e), 0, len(C))")
contract("artap.quality_indicator:epsilon_add", props=["C17"],
         types={"reference": "List[List[Real]]", "computed": "List[List[Real]]", "result": "Real"},
         locals={"eps": "ExtReal", "eps_j": "ExtReal", "eps_k": "Real"},
         requires=["pts_wf(reference, computed)"],
         ensures=["result >= 0",
                  "forall(lambda j: epsj_le(computed, reference[j], result), 0, len(reference))",
                  "result == 0 or exists(lambda j: epsj_ge(computed, reference[j], result), 0, len(reference))"],
         loops={1: ["not is_inf(eps)", "fin(eps) >= 0",
                    "forall(lambda j: epsj_le(computed, reference[j], fin(eps)), 0, _k)",
                    "fin(eps) == 0 or exists(lambda j: epsj_ge(computed, reference[j], fin(eps)), 0, _k)"],
                2: ["_k1 < len(reference)", "ref_val is reference[_k1]", "not is_inf(eps)", "fin(eps) >= 0",
                    "forall(lambda j: epsj_le(computed, reference[j], fin(eps)), 0, _k1)",
                    "fin(eps) == 0 or exists(lambda j: epsj_ge(computed, reference[j], fin(eps)), 0, _k1)",
                    "implies(_k2 == 0, eps_j == inf)", "implies(_k2 > 0, not is_inf(eps_j))",
                    "implies(_k2 > 0, exists(lambda k: shift_le(computed[k], ref_val, fin(eps_j)), 0, _k2))",
                    "implies(_k2 > 0, forall(lambda k: shift_ge_some(computed[k], ref_val, fin(eps_j)), 0, _k2))"]})

# consequences stated by the property, as lemmas over the postcondition of epsilon_add (e plays the role of the result)
_RC = [("R", "List[List[Real]]"), ("C", "List[List[Real]]"), ("e", "Real")]
_EPS_POST = ["e >= 0", "forall(lambda j: epsj_le(C, R[j], e), 0, len(R))",
             "e == 0 or exists(lambda j: epsj_ge(C, R[j], e), 0, len(R))"]
lemma("eps_zero_for_identical_sets", props=["C17"], vars=_RC,
      hyps=_EPS_POST + ["len(C) == len(R)", "len(R) >= 1",
                        "forall(lambda j: len(R[j]) >= 1 and len(C[j]) == len(R[j]) and forall(lambda i: C[j][i] == R[j][i], 0, len(R[j])), 0, len(R))"],
      goal="e == 0")
lemma("eps_equals_shift", props=["C17"], vars=_RC + [("d", "Real")],
      hyps=_EPS_POST + ["d >= 0", "len(C) == len(R)", "len(R) >= 1",
                        "forall(lambda j: len(R[j]) >= 1 and len(C[j]) == len(R[j]) and forall(lambda t: len(R[t]) == len(R[j]), 0, len(R)) and "
                        "forall(lambda i: C[j][i] == R[j][i] + d, 0, len(R[j])), 0, len(R))",
                        # a reference point that no other reference point beats in every coordinate: exists because "strictly
                        # smaller in every coordinate" is a strict partial order on a finite set (minimal-element lemma, Lean/Mathlib)
                        "exists(lambda j: forall(lambda k: exists(lambda i: R[k][i] >= R[j][i], 0, len(R[j])), 0, len(R)), 0, len(R))"],
      goal="e == d")

# ---- population queries: the recorded individuals carrying a tag, in recording order ------------------------------------
# gidx (ghost) is the increasing list of positions that were selected
define("is_filter", ["res", "src", "gidx", "tag"],
       "len(gidx) == len(res) and forall(lambda i: 0 <= gidx[i] and gidx[i] < len(src) and res[i] is src[gidx[i]] and "
       "src[gidx[i]].population_id == tag, 0, len(res)) and "
       "forall(lambda i, j: implies(i < j, gidx[i] < gidx[j]), (0, len(res)), (0, len(res))) and "
       "forall(lambda j: implies(src[j].population_id == tag, exists(lambda i: gidx[i] == j, 0, len(res))), 0, len(src))")
contract("artap.problem:Problem.population", props=["C17", "C09"],
         types={"population_id": "Int", "result": "List[Ref[Individual]]"}, locals={"individuals": "List[Ref[Individual]]"},
         ghost_results={"gidx": "Seq[Int]"},
         requires=["valid(self.individuals)", "forall(lambda j: valid(self.individuals[j]), 0, len(self.individuals))"],
         ensures=["fresh(result)", "is_filter(result, self.individuals, gidx, population_id)", "unchanged(self.individuals)"],
         loops={1: ["fresh(individuals)", "_k <= len(self.individuals)", "unchanged(self.individuals)",
                    "len(gidx) == len(individuals)",
                    "forall(lambda i: 0 <= gidx[i] and gidx[i] < _k and individuals[i] is self.individuals[gidx[i]] and "
                    "self.individuals[gidx[i]].population_id == population_id, 0, len(individuals))",
                    "forall(lambda i, j: implies(i < j, gidx[i] < gidx[j]), (0, len(individuals)), (0, len(individuals)))",
                    "forall(lambda j: implies(self.individuals[j].population_id == population_id, "
                    "exists(lambda i: gidx[i] == j, 0, len(individuals))), 0, _k)"]},
         ghost={"after:individuals = []": ["gidx = empty_int_seq()"],
                "after:individuals.append(individual)": ["gidx = seq_append(gidx, _k1)"]},
         allocates=["$list.Ref", "$len.Ref"])
contract("artap.problem:Problem.last_population", props=["C17", "C09"],
         types={"result": "List[Ref[Individual]]"}, locals={"max_index": "Int"}, ghost_results={"gidx": "Seq[Int]", "max_index": "Int"},
         requires=["valid(self.individuals)", "forall(lambda j: valid(self.individuals[j]), 0, len(self.individuals))"],
         ensures=["fresh(result)",
                  # the default query returns the generation with the largest tag (max_index), in recording order
                  "forall(lambda j: self.individuals[j].population_id <= max_index, 0, len(self.individuals))",
                  "max_index == -1 or exists(lambda j: self.individuals[j].population_id == max_index, 0, len(self.individuals))",
                  "is_filter(result, self.individuals, gidx, max_index)"],
         loops={1: ["max_index >= -1", "forall(lambda j: self.individuals[j].population_id <= max_index, 0, _k)",
                    "max_index == -1 or exists(lambda j: self.individuals[j].population_id == max_index, 0, _k)"]},
         allocates=["$list.Ref", "$len.Ref"])

contract("artap.results:Results.population", props=["C17"],
         types={"population_id": "Int", "result": "List[Ref[Individual]]"}, locals={"individuals": "List[Ref[Individual]]"},
         ghost_results={"gidx": "Seq[Int]", "max_index": "Int"},
         requires=["valid(self.problem)", "valid(self.problem.individuals)",
                   "forall(lambda j: valid(self.problem.individuals[j]), 0, len(self.problem.individuals))"],
         ensures=["implies(population_id != -1, is_filter(result, self.problem.individuals, gidx, population_id))",
                  "implies(population_id == -1, is_filter(result, self.problem.individuals, gidx, max_index) and "
                  "forall(lambda j: self.problem.individuals[j].population_id <= max_index, 0, len(self.problem.individuals)))",
                  "forall(lambda i: exists(lambda j: result[i] is self.problem.individuals[j], 0, len(self.problem.individuals)), 0, len(result))"],
         allocates=["$list.Ref", "$len.Ref"])

contract("Results.goal_index", abstract=True, params=["self", "name"], props=["C17"],
         trusted="uses next() over a generator expression (outside the subset); bounded run-time check in rt/scenarios_c17.py",
         types={"self": "Ref[Results]", "name": "Str", "result": "Int"},
         ensures=["0 <= result and result < len(self.problem.costs)", "self.problem.costs[result]['name'] == name"],
         raises={"ValueError": []}, pure=False)
contract("Results.parameter_index", abstract=True, params=["self", "name"], props=["C17"],
         trusted="uses next() over a generator expression (outside the subset); bounded run-time check",
         types={"self": "Ref[Results]", "name": "Str", "result": "Int"},
         ensures=["0 <= result and result < len(self.problem.parameters)", "self.problem.parameters[result]['name'] == name"])

contract("artap.results:Results.find_optimum", props=["C17"],
         types={"name": "Opt[Str]", "result": "Ref[Individual]"},
         locals={"min_l": "List[Ref[Individual]]", "criteria": "Opt[Str]", "index": "Int"},
         requires=["valid(self.problem)", "valid(self.problem.individuals)", "valid(self.problem.costs)", "len(self.problem.individuals) >= 1",
                   "len(self.problem.costs) >= 1", "forall(lambda c: valid(self.problem.costs[c]), 0, len(self.problem.costs))",
                   "forall(lambda j: valid(self.problem.individuals[j]) and valid(self.problem.individuals[j].costs) and "
                   "len(self.problem.individuals[j].costs) == len(self.problem.costs), 0, len(self.problem.individuals))"],
         ensures=["exists(lambda j: result is self.problem.individuals[j], 0, len(self.problem.individuals))",
                  # minimal for a minimised (or undeclared) objective, maximal for a maximised one
                  "implies(not ('criteria' in self.problem.costs[index]) or self.problem.costs[index]['criteria'] == 'minimize', "
                  "forall(lambda j: result.costs[index] <= self.problem.individuals[j].costs[index], 0, len(self.problem.individuals)))",
                  "implies('criteria' in self.problem.costs[index] and self.problem.costs[index]['criteria'] != 'minimize', "
                  "forall(lambda j: result.costs[index] >= self.problem.individuals[j].costs[index], 0, len(self.problem.individuals)))",
                  "implies(is_none(name) or name == '', index == 0)",
                  "implies(not is_none(name) and name != '', self.problem.costs[index]['name'] == name)"],
         raises={"ValueError": []}, allocates=["$list.Ref", "$len.Ref"])

contract("artap.results:Results.goal_on_parameter", props=["C17"],
         types={"parameter_name": "Str", "goal_name": "Str", "population_id": "Int", "sorted": "Bool", "result": "List[List[Real]]"},
         locals={"parameter_values": "List[Real]", "goal_values": "List[Real]", "individuals": "List[Ref[Individual]]"},
         requires=["not sorted", "valid(self.problem)", "valid(self.problem.individuals)", "valid(self.problem.costs)",
                   "valid(self.problem.parameters)",
                   "forall(lambda j: valid(self.problem.individuals[j]) and valid(self.problem.individuals[j].costs) and "
                   "valid(self.problem.individuals[j].vector) and len(self.problem.individuals[j].costs) == len(self.problem.costs) and "
                   "len(self.problem.individuals[j].vector) == len(self.problem.parameters), 0, len(self.problem.individuals))"],
         ensures=["len(result) == 2", "len(result[0]) == len(individuals)", "len(result[1]) == len(individuals)",
                  # pairing: row i of both lists comes from ONE recorded individual
                  "forall(lambda i: result[0][i] == individuals[i].vector[parameter_index] and "
                  "result[1][i] == individuals[i].costs[goal_index], 0, len(individuals))",
                  "forall(lambda i: exists(lambda j: individuals[i] is self.problem.individuals[j], 0, len(self.problem.individuals)), 0, len(individuals))"],
         loops={1: ["len(parameter_values) == _k and len(goal_values) == _k", "fresh(parameter_values) and fresh(goal_values)",
                    "parameter_values is not goal_values", "stable(individuals)",
                    "forall(lambda i: parameter_values[i] == individuals[i].vector[parameter_index] and "
                    "goal_values[i] == individuals[i].costs[goal_index], 0, _k)"]},
         raises={"ValueError": []}, allocates=["$list.Ref", "$len.Ref", "$list.Real", "$len.Real"])

# generational distance: scipy's cdist / numpy reductions are outside the subset -> bounded run-time contract only
contract("artap.quality_indicator:gd", props=["C17"], options={"bounded_only": True},
         types={"reference": "List[List[Real]]", "computed": "List[List[Real]]", "result": "Real"},
         requires=["len(reference) >= 1 and len(computed) >= 1"],
         ensures=["abs(result - sum([min([sqrt(sum([(r[i] - c[i]) * (r[i] - c[i]) for i in range(len(c))])) for r in reference]) "
                  "for c in computed]) / len(computed)) <= 1e-9",
                  "(abs(result) <= 1e-12) == all([any([list(r) == list(c) for r in reference]) for c in computed])"])

# ---- the remaining listings of Results (sorted views, tables, Pareto listings): BOUNDED run-time contracts (sorted(), zip, dict views
# are outside the subset).  `pop_of(self, pid)` is the independent reading: recorded individuals with that tag (largest tag for -1).
define("pop_of", ["r", "pid"],
       "[x for x in r.problem.individuals if x.population_id == (max(y.population_id for y in r.problem.individuals) if pid in (-1, None) else pid)]")
_RB = dict(options={"bounded_only": True}, props=["C17"], trusted="bounded: listing functions checked at run time against an independent reading")
contract("artap.results:Results.goal_on_parameter#sorted",
         ensures=["builtins_sorted(zip(result[0], result[1])) == builtins_sorted((x.vector[ghost_pi], x.costs[ghost_gi]) for x in pop_of(self, population_id))",
                  "result[0] == builtins_sorted(result[0])"], **_RB)
contract("artap.results:Results.parameter_on_goal",
         ensures=["builtins_sorted(zip(result[0], result[1])) == builtins_sorted((x.costs[ghost_gi], x.vector[ghost_pi]) for x in pop_of(self, population_id))",
                  "implies(sorted, result[0] == list(builtins_sorted(result[0])))"], **_RB)
contract("artap.results:Results.parameter_on_parameter",
         ensures=["builtins_sorted(zip(result[0], result[1])) == builtins_sorted((x.vector[ghost_p1], x.vector[ghost_p2]) for x in pop_of(self, population_id))",
                  "implies(sorted, result[0] == list(builtins_sorted(result[0])))"], **_RB)
contract("artap.results:Results.goal_on_index",
         ensures=["result[0] == list(range(len(pop_of(self, population_id))))",
                  "implies(name is None, [list(c) for c in result[1:]] == [[x.costs[j] for x in pop_of(self, population_id)] for j in range(len(self.problem.costs))])",
                  "implies(name is not None, len(result) == 2 and list(result[1]) == [x.costs[ghost_gi] for x in pop_of(self, population_id)])"], **_RB)
contract("artap.results:Results.parameter_on_index",
         ensures=["result[0] == list(range(len(pop_of(self, population_id))))",
                  "implies(name is None, [list(c) for c in result[1:]] == [[x.vector[j] for x in pop_of(self, population_id)] for j in range(len(self.problem.parameters))])",
                  "implies(name is not None, len(result) == 2 and list(result[1]) == [x.vector[ghost_pi] for x in pop_of(self, population_id)])"], **_RB)
contract("artap.results:Results.costs",
         ensures=["[list(c) for c in result] == [[x.costs[j] for x in self.problem.individuals] for j in range(len(self.problem.individuals[0].costs))]"], **_RB)
contract("artap.results:Results.parameters",
         ensures=["builtins_sorted(tuple(v) for v in result) == builtins_sorted(tuple(x.vector) for x in self.problem.individuals)"], **_RB)
contract("artap.results:Results.pareto_front",
         ensures=["[list(c) for c in result] == [[x.costs[j] for x in pop_of(self, population_id) if x.features['front_number'] == 1] "
                  "for j in range(len(self.problem.costs))]"], **_RB)
contract("artap.results:Results.pareto_individuals",
         ensures=["[id(x) for x in result] == [id(x) for x in pop_of(self, population_id) if x.features['front_number'] == 1]"], **_RB)
contract("artap.results:Results.table",
         # every row pairs ONE individual's parameter values with that same individual's costs; every recorded individual once
         ensures=["builtins_sorted(tuple(r) for r in (list(zip(*result)) if transpose else result)) == "
                  "builtins_sorted(tuple(list(x.vector) + list(x.costs)) for x in self.problem.individuals)"], **_RB)
contract("artap.problem:Problem.populations", props=["C17"], options={"bounded_only": True},
         trusted="bounded: dict of lists (outside the subset)",
         ensures=["builtins_sorted(result) == builtins_sorted(set(x.population_id for x in self.individuals))",
                  "all([id(x) for x in result[t]] == [id(x) for x in self.individuals if x.population_id == t] for t in result)"])

# ---- C10 / C11: statement / commit discipline of the SQLite store --------------------------------------------------------
# sqlite3 is external: a connection is an abstract object whose ghost fields count what was executed since the last commit.
# Assumed about SQLite (listed in the evidence): commit is atomic and durable in a journalled mode; a statement that raised has
# no effect; an uncommitted statement of a connection that is dropped is rolled back.
_UPSERT = "INSERT INTO individuals (id, individual) VALUES(?,?) ON CONFLICT(id) DO UPDATE SET individual=excluded.individual;"
_SQL_MOD = ["self._conn", "SqlConn.ghost_journal_off", "SqlConn.ghost_pending", "SqlConn.ghost_commits", "SqlConn.ghost_stmts", "SqlConn.ghost_last_sql", "SqlConn.ghost_last_id",
            "SqlConn.ghost_last_doc", "$list.Int", "$len.Int"]     # only the ghost state of connections changes
contract("SqlConn.cursor", abstract=True, params=["self"], props=["C10", "C11"], trusted="sqlite3 (external)",
         types={"self": "Ref[SqlConn]", "result": "Ref[SqlCursor]"}, ensures=["valid(result)", "result.conn is self"], allocates=True)
contract("SqlCursor.execute", abstract=True, params=["self", "sql", "parameters"], props=["C10", "C11"], trusted="sqlite3 (external)",
         types={"self": "Ref[SqlCursor]", "sql": "Str", "parameters": "Tuple[Int,Ref[IndDoc]]"},
         ensures=["self.conn.ghost_pending == old(self.conn.ghost_pending) + 1", "self.conn.ghost_stmts == old(self.conn.ghost_stmts) + 1",
                  "self.conn.ghost_last_sql == sql", "self.conn.ghost_last_id == parameters[0]", "self.conn.ghost_last_doc is parameters[1]",
                  "len(self.conn.ghost_ids) == old(len(self.conn.ghost_ids)) + 1",
                  "self.conn.ghost_ids[len(self.conn.ghost_ids) - 1] == parameters[0]",
                  "forall(lambda t: self.conn.ghost_ids[t] == old(self.conn.ghost_ids[t]), 0, old(len(self.conn.ghost_ids)))"],
         raises={"OperationalError": []},
         modifies=["self.conn.ghost_pending", "self.conn.ghost_stmts", "self.conn.ghost_last_sql", "self.conn.ghost_last_id",
                   "self.conn.ghost_last_doc", "list(self.conn.ghost_ids)"])
contract("SqlConn.commit", abstract=True, params=["self"], props=["C10", "C11"], trusted="sqlite3 (external): atomic, durable commit",
         types={"self": "Ref[SqlConn]"},
         ensures=["self.ghost_pending == 0", "self.ghost_commits == old(self.ghost_commits) + 1"],
         raises={"OperationalError": ["self.ghost_pending == old(self.ghost_pending)", "self.ghost_commits == old(self.ghost_commits)"]},
         modifies=["self.ghost_pending", "self.ghost_commits"])
# the JSON document written for an individual is a snapshot of its current data (to_dict + json.dumps are checked at run time:
# bounded round-trip scenarios of C10)
contract("Individual.to_dict", abstract=True, params=["self"], props=["C10", "C11"],
         trusted="to_dict / json.dumps: bounded run-time round-trip check (C10)",
         types={"self": "Ref[Individual]", "result": "Ref[IndDoc]"},
         ensures=["valid(result)", "fresh(result)", "result.ghost_of is self", "result.ghost_costs is self.costs",
                  "result.ghost_vector is self.vector"], allocates=True)
contract("lib:json.dumps", abstract=True, params=["obj"], props=["C10", "C11"], trusted="json (library): identity on the abstract document",
         types={"obj": "Ref[IndDoc]", "result": "Ref[IndDoc]"}, ensures=["result is obj"], pure=True, returns="obj")

contract("artap.datastore:SqliteDataStore.sync_individual", props=["C10", "C11"],
         types={"individual": "Ref[Individual]"}, locals={"conn": "Ref[SqlConn]", "c": "Ref[SqlCursor]"},
         ghost_results={"gconn": "Ref[SqlConn]"},
         requires=["valid(individual)", "implies(not is_none(self._conn), valid(self._conn) and valid(self._conn.ghost_ids))"],
         ensures=[
             # write modes: when the call returns, the LAST statement of some connection is the upsert of this individual's current
             # document and it has been committed (nothing pending): synchronised means durable
             "implies(self.mode == 'write' or self.mode == 'rewrite', valid(gconn) and gconn.ghost_pending == 0 and "
             "gconn.ghost_last_sql == 'INSERT INTO individuals (id, individual) VALUES(?,?) ON CONFLICT(id) DO UPDATE SET individual=excluded.individual;' and gconn.ghost_last_id == individual.id and "
             "gconn.ghost_last_doc.ghost_of is individual and gconn.ghost_last_doc.ghost_costs is individual.costs and "
             "gconn.ghost_last_doc.ghost_vector is individual.vector)"],
         ghost={"after:conn.commit()": ["gconn = conn"]},
         modifies=_SQL_MOD, allocates=True,
         notes="the recursive retry after OperationalError is verified against this same contract (modular); termination not proved")

contract("artap.datastore:SqliteDataStore.sync_all", props=["C10"],
         types={}, locals={"conn": "Ref[SqlConn]", "c": "Ref[SqlCursor]"},
         ghost_results={"gconn": "Ref[SqlConn]"},
         requires=["valid(self.problem)", "valid(self.problem.individuals)",
                   "implies(not is_none(self._conn), valid(self._conn) and valid(self._conn.ghost_ids))",
                   "forall(lambda i: valid(self.problem.individuals[i]), 0, len(self.problem.individuals))"],
         ensures=[
             # one upsert per recorded individual, in order, then one commit: the store holds a row for every recorded individual
             "implies(self.mode == 'write' or self.mode == 'rewrite', valid(gconn) and gconn.ghost_pending == 0 and "
             "len(gconn.ghost_ids) >= len(self.problem.individuals) and "
             "forall(lambda i: gconn.ghost_ids[len(gconn.ghost_ids) - len(self.problem.individuals) + i] == self.problem.individuals[i].id, "
             "0, len(self.problem.individuals)))", "unchanged(self.problem.individuals)"],
         raises={"OperationalError": []},
         loops={1: ["valid(conn)", "valid(c)", "c.conn is conn", "unchanged(self.problem.individuals)", "_k <= len(self.problem.individuals)",
                    "valid(conn.ghost_ids)",
                    "len(conn.ghost_ids) == before(len(conn.ghost_ids)) + _k",
                    "forall(lambda i: conn.ghost_ids[before(len(conn.ghost_ids)) + i] == self.problem.individuals[i].id, 0, _k)"]},
         ghost={"after:conn.commit()": ["gconn = conn"]},
         modifies=_SQL_MOD, allocates=True)

# ---- C10 round trip through a real SQLite file (BOUNDED: json / sqlite3 are libraries outside the subset) -------------------
# the scenario synchronises a generated history to a fresh file, reopens it with a read-mode view and hands back
#   result = {'view': ProblemViewDataStore, 'rows': raw (id, json) rows, 'expected': {id: last synchronised data}, 'problem': writer}
define("same_doc", ["x", "e"],
       "exact_eq(list(x.vector), e['vector']) and exact_eq(list(x.costs), e['costs']) and exact_eq(list(x.costs_signed), e['costs_signed']) and "
       "x.population_id == e['population_id'] and exact_eq(x.custom, e['custom']) and exact_eq(x.features, e['features'])")
contract("artap.datastore:SqliteDataStore.sync_individual#roundtrip", props=["C10"], options={"bounded_only": True},
         trusted="bounded: real sqlite3 + json round trip over generated histories",
         ensures=["result['view'].name == result['problem'].name",
                  "exact_eq(result['view'].parameters, result['problem'].parameters) and exact_eq(result['view'].costs, result['problem'].costs)",
                  # one row per id, last synchronisation wins
                  "sorted(r[0] for r in result['rows']) == sorted(result['expected'])",
                  "sorted(x.id for x in result['view'].individuals) == sorted(result['expected'])",
                  "all(same_doc(x, result['expected'][x.id]) for x in result['view'].individuals)"])
contract("artap.datastore:SqliteDataStore.sync_all#after_run", props=["C10"], options={"bounded_only": True},
         trusted="bounded: real runs with an SQLite store",
         # (the store may hold further rows: offspring that were evaluated, hence synchronised by Job.evaluate, but not recorded)
         ensures=["all(any(v.id == x.id for v in result['view'].individuals) for x in result['problem'].individuals)",
                  "all(same_doc(v, result['expected'][v.id]) for v in result['view'].individuals if v.id in result['expected'])",
                  "len(set(r[0] for r in result['rows'])) == len(result['rows'])"])

# ---- C11 crash exploration (BOUNDED stand-in): the writer process is killed with os._exit at an injected event and the file is
# reopened by a fresh read-mode view; result = {'opened', 'error', 'synced', 'row_ids', 'bad_rows', 'total_events'}
contract("artap.datastore:SqliteDataStore.sync_individual#crash", props=["C11"], options={"bounded_only": True},
         trusted="bounded: process death injected at enumerated events of one small NSGA-II run (serial evaluation)",
         ensures=["result['opened']",
                  "all(i in result['row_ids'] for i in result['synced'])",
                  "result['bad_rows'] == []"])


# ---- C11: the thread-safe (default) store never switches the rollback journal off -----------------------------------------
# (journal_mode = OFF would let a process death in the middle of a large transaction corrupt the file)
contract("lib:sqlite3.connect", abstract=True, params=["database", "isolation_level"], props=["C11"], trusted="sqlite3 (external)",
         types={"database": "Str", "isolation_level": "Str", "result": "Ref[SqlConn]"}, options={"defaults": {"isolation_level": ""}},
         ensures=["valid(result)", "fresh(result)", "not result.ghost_journal_off", "result.ghost_pending == 0", "valid(result.ghost_ids)"],
         allocates=True)
contract("SqlCursor.execute/1", abstract=True, params=["self", "sql"], props=["C11"], trusted="sqlite3 (external)",
         types={"self": "Ref[SqlCursor]", "sql": "Str"},
         # (the one-argument form is only used for PRAGMA statements, which take effect at once and are not part of a transaction)
         ensures=["self.conn.ghost_journal_off == (old(self.conn.ghost_journal_off) or sql == 'PRAGMA journal_mode = OFF')",
                  "self.conn.ghost_pending == old(self.conn.ghost_pending)"],
         raises={"OperationalError": ["self.conn.ghost_journal_off == old(self.conn.ghost_journal_off)",
                                     "self.conn.ghost_pending == old(self.conn.ghost_pending)"]},
         modifies=["self.conn.ghost_journal_off", "self.conn.ghost_pending"])
contract("artap.datastore:SqliteDataStore.conn", props=["C11"],
         types={"result": "Ref[SqlConn]"}, locals={"conn": "Ref[SqlConn]", "c": "Ref[SqlCursor]"},
         requires=["implies(not is_none(self._conn), valid(self._conn) and valid(self._conn.ghost_ids))"],
         ensures=["valid(result)", "valid(result.ghost_ids)",
                  # default (thread-safe) mode: a fresh connection on which the journal was not switched off
                  "implies(self.thread_safe, fresh(result) and not result.ghost_journal_off)",
                  "implies(self.thread_safe, is_none(self._conn) == old(is_none(self._conn)) and "
                  "implies(not is_none(self._conn), self._conn is old(self._conn)))",
                  # cached (not thread-safe) mode: the one connection of the store; a new one has nothing pending, an existing one
                  # is handed out as it is
                  "implies(not self.thread_safe, not is_none(self._conn) and result is self._conn)",
                  "implies(not self.thread_safe and old(is_none(self._conn)), fresh(result) and result.ghost_pending == 0)",
                  "implies(not self.thread_safe and old(not is_none(self._conn)), result is old(self._conn) and "
                  "result.ghost_pending == old(self._conn.ghost_pending))",
                  "implies(self.thread_safe, result.ghost_pending == 0)"],
         modifies=["self._conn", "SqlConn.ghost_journal_off", "SqlConn.ghost_pending", "SqlConn.ghost_commits"], allocates=True,
         notes="sqlite3.connect is assumed not to raise here (if it did, the real code would fail with UnboundLocalError at `return conn`)")

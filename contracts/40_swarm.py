# ---- C18: swarm personal best, velocity clamp, position reset, bounded leader set -----------------------------------
define("half_range", ["lo", "hi"], "(hi - lo) / 2")

contract("artap.algorithm_swarm:SwarmAlgorithm.speed_constriction", props=["C18", "C08"],
         types={"velocity": "Real", "u_bound": "Real", "l_bound": "Real", "result": "Real"},
         requires=["l_bound <= u_bound"],
         ensures=["result <= half_range(l_bound, u_bound)", "result >= -half_range(l_bound, u_bound)",
                  "implies(-half_range(l_bound, u_bound) <= velocity and velocity <= half_range(l_bound, u_bound), result == velocity)"],
         pure=True)

# personal best: replaced by the new position unless the old best dominates the new one
define("pbest_post", ["p"],
       "ite(pareto_spec(p.costs_signed, old(p.features['best_cost'])) != 2, "
       "p.features['best_cost'] is p.costs_signed and p.features['best_vector'] is p.vector, "
       "p.features['best_cost'] is old(p.features['best_cost']) and p.features['best_vector'] is old(p.features['best_vector']))")
define("distinct_features", ["ps"],
       "forall(lambda i, j: implies(i != j, ps[i].features is not ps[j].features), (0, len(ps)), (0, len(ps)))")
contract("artap.algorithm_swarm:SwarmAlgorithm.update_particle_best", props=["C18"],
         types={"population": "List[Ref[Individual]]"},
         requires=["distinct_features(population)",
                   "forall(lambda i: valid(population[i]) and valid(population[i].features) and "
                   "len(population[i].costs_signed) == len(population[i].features['best_cost']) and "
                   "len(population[i].costs_signed) >= 2, 0, len(population))"],
         ensures=["forall(lambda i: pbest_post(population[i]), 0, len(population))"],
         loops={1: ["forall(lambda i: pbest_post(population[i]), 0, _k)",
                    "forall(lambda i: population[i].features['best_cost'] is old(population[i].features['best_cost']) and "
                    "population[i].features['best_vector'] is old(population[i].features['best_vector']), _k, len(population))"]},
         modifies=["each(population).features.best_cost", "each(population).features.best_vector"])
lemma("pbest_never_replaced_by_dominated", props=["C18"],
      vars=[("new", "List[Real]"), ("best", "List[Real]")],
      hyps=["len(new) == len(best)", "len(new) >= 2", "pareto_spec(best, new) == 1"],
      goal="pareto_spec(new, best) == 2")

# ---- update_position: a coordinate that would leave the box is put on the violated bound, velocity reversed / damped ----
define("lbp", ["s", "i"], "s.parameters[i]['bounds'][0]")
define("ubp", ["s", "i"], "s.parameters[i]['bounds'][1]")
define("moved", ["ind", "i"], "old(ind.vector[i]) + old(ind.features['velocity'][i])")
define("is_out", ["s", "ind", "i"], "moved(ind, i) > ubp(s, i) or moved(ind, i) < lbp(s, i)")
define("pos_new", ["x0", "lb", "ub"], "ite(x0 > ub, ub, ite(x0 < lb, lb, x0))")
define("coord_same", ["ind", "i"],
       "ind.vector[i] == old(ind.vector[i]) and ind.features['velocity'][i] == old(ind.features['velocity'][i])")
define("coord_done_rev", ["s", "ind", "i"],
       "ind.vector[i] == pos_new(moved(ind, i), lbp(s, i), ubp(s, i)) and "
       "ind.features['velocity'][i] == ite(is_out(s, ind, i), -old(ind.features['velocity'][i]), old(ind.features['velocity'][i]))")
define("coord_done_damp", ["s", "ind", "i"],
       "ind.vector[i] == pos_new(moved(ind, i), lbp(s, i), ubp(s, i)) and "
       "ind.features['velocity'][i] == ite(is_out(s, ind, i), old(ind.features['velocity'][i]) * 0.001, old(ind.features['velocity'][i]))")
define("box_wf", ["s"],
       "forall(lambda p: valid(s.parameters[p]) and 'bounds' in s.parameters[p] and len(s.parameters[p]['bounds']) >= 2 and "
       "lbp(s, p) <= ubp(s, p), 0, len(s.parameters))")
define("swarm_wf", ["s", "ps"],
       "forall(lambda k: valid(ps[k]) and valid(ps[k].features) and len(ps[k].vector) == len(s.parameters) and "
       "len(ps[k].features['velocity']) == len(ps[k].vector), 0, len(ps)) and "
       "forall(lambda k, l: implies(k != l, ps[k].vector is not ps[l].vector and "
       "ps[k].features['velocity'] is not ps[l].features['velocity']) and ps[k].vector is not ps[l].features['velocity'], "
       "(0, len(ps)), (0, len(ps))) and "
       "forall(lambda k, p: ps[k].vector is not s.parameters[p]['bounds'] and "
       "ps[k].features['velocity'] is not s.parameters[p]['bounds'], (0, len(ps)), (0, len(s.parameters)))")
define("bounds_same", ["s"], "forall(lambda p: unchanged(s.parameters[p]['bounds']), 0, len(s.parameters))")


def _update_position(cls, done):
    done_all = "forall(lambda k, i: %s(self, individuals[k], i), (0, %%s), (0, len(self.parameters)))" % done
    same_all = "forall(lambda k, i: coord_same(individuals[k], i), (%s, len(individuals)), (0, len(self.parameters)))"
    contract("artap.algorithm_swarm:%s.update_position" % cls, props=["C18", "C08"],
             types={"individuals": "List[Ref[Individual]]"},
             requires=["box_wf(self)", "swarm_wf(self, individuals)"],
             ensures=[done_all % "len(individuals)",
                      # consequence stated by C08/C18: every coordinate ends inside the box
                      "forall(lambda k, i: lbp(self, i) <= individuals[k].vector[i] and individuals[k].vector[i] <= ubp(self, i), "
                      "(0, len(individuals)), (0, len(self.parameters)))",
                      "bounds_same(self)"],
             loops={1: [done_all % "_k", same_all % "_k", "bounds_same(self)"],
                    2: [done_all % "_k1", same_all % "_k1 + 1", "bounds_same(self)", "_k2 <= len(self.parameters)",
                        "i == _k2 - 1 or _k2 == 0" if False else "True",
                        "forall(lambda t: %s(self, individual, t), 0, _k2)" % done,
                        "forall(lambda t: coord_same(individual, t), _k2, len(self.parameters))",
                        "individual is individuals[_k1]", "_k1 < len(individuals)"]},
             modifies=["$list.Real"])


_update_position("OMOPSO", "coord_done_rev")
_update_position("SMPSO", "coord_done_damp")
_update_position("PSOGA", "coord_done_rev")

# ---- leaders / velocity ------------------------------------------------------------------------------------------
contract("artap.archive:Archive.size", props=["C18"], types={"result": "Int"}, ensures=["result == len(self._contents)"],
         pure=True, returns="len(self._contents)")
contract("artap.archive:Archive.rand_choice", props=["C18"], types={"result": "Ref[Individual]"},
         requires=["len(self._contents) >= 1"],
         ensures=["exists(lambda i: result is self._contents[i], 0, len(self._contents))"])
contract("artap.archive:Archive.rand_sample", props=["C18"], types={"nr": "Int", "result": "List[Ref[Individual]]"},
         requires=["nr == 2", "len(self._contents) >= 2"],
         ensures=["len(result) == 2", "fresh(result)",
                  "exists(lambda i, j: i != j and result[0] is self._contents[i] and result[1] is self._contents[j], "
                  "(0, len(self._contents)), (0, len(self._contents)))"],
         allocates=["$list.Ref", "$len.Ref"])

define("leaders_wf", ["s"],
       "valid(s.leaders) and valid(s.leaders._contents) and len(s.leaders._contents) >= 1 and "
       "forall(lambda i: valid(s.leaders._contents[i]) and valid(s.leaders._contents[i].vector) and valid(s.leaders._contents[i].features) and "
       "len(s.leaders._contents[i].vector) == len(s.parameters), 0, len(s.leaders._contents))")
_SEL_ENS = ["exists(lambda i: result is self.leaders._contents[i], 0, len(self.leaders._contents))"]
contract("SwarmAlgorithm.select_leader", abstract=True, params=["self"], props=["C18"],
         types={"self": "Ref[SwarmAlgorithm]", "result": "Ref[Individual]"},
         requires=["leaders_wf(self)"], ensures=_SEL_ENS, allocates=["$list.Ref", "$len.Ref"],
         notes="abstract; OMOPSO/SMPSO/PSOGA.select_leader are verified against the same clauses")
for _cls in ("OMOPSO", "SMPSO", "PSOGA"):
    contract("artap.algorithm_swarm:%s.select_leader" % _cls, props=["C18"], types={"result": "Ref[Individual]"},
             locals={"candidates": "List[Ref[Individual]]"},
             requires=["leaders_wf(self)"], ensures=_SEL_ENS, allocates=["$list.Ref", "$len.Ref"])
contract("SwarmAlgorithm.inertia_weight", abstract=True, params=["self"], props=["C18"],
         types={"self": "Ref[SwarmAlgorithm]", "result": "Real"}, trusted=None,
         notes="abstract: any real (the velocity formula is over-approximated by an arbitrary real)")
contract("artap.algorithm_swarm:SwarmAlgorithm.khi", props=["C18"], types={"c1": "Real", "c2": "Real", "result": "Real"},
         ensures=["True"], pure=True)

define("vel_clamped", ["s", "ind"],
       "len(ind.features['velocity']) == len(s.parameters) and "
       "forall(lambda i: ind.features['velocity'][i] <= half_range(lbp(s, i), ubp(s, i)) and "
       "ind.features['velocity'][i] >= -half_range(lbp(s, i), ubp(s, i)), 0, len(s.parameters))")
define("particles_wf", ["s", "ps"],
       "distinct_features(ps) and forall(lambda k: valid(ps[k]) and valid(ps[k].features) and valid(ps[k].vector) and "
       "valid(ps[k].features['best_vector']) and len(ps[k].vector) == len(s.parameters) and "
       "len(ps[k].features['best_vector']) == len(s.parameters), 0, len(ps))")
define("vectors_same", ["ps"],
       "forall(lambda k: unchanged(ps[k].vector) and unchanged(ps[k].features['best_vector']), 0, len(ps))")
define("leaders_same", ["s"], "unchanged(s.leaders._contents) and "
       "forall(lambda i: unchanged(s.leaders._contents[i].vector), 0, len(s.leaders._contents))")


def _update_velocity(target):
    contract(target, props=["C18"], types={"individuals": "List[Ref[Individual]]"},
             locals={"r1": "Real", "r2": "Real", "c1": "Real", "c2": "Real"},
             requires=["box_wf(self)", "particles_wf(self, individuals)", "leaders_wf(self)", "valid(self.parameters)",
                       "forall(lambda p: valid(self.parameters[p]['bounds']), 0, len(self.parameters))"],
             ensures=["forall(lambda k: vel_clamped(self, individuals[k]), 0, len(individuals))"],
             loops={1: ["forall(lambda k: vel_clamped(self, individuals[k]) and valid(individuals[k].features['velocity']), 0, _k)",
                        "bounds_same(self)", "vectors_same(individuals)", "leaders_same(self)", "stable(individuals)",
                        "unchanged(self.parameters)", "leaders_wf(self)", "particles_wf(self, individuals)", "box_wf(self)",
                        "_k <= len(individuals)"],
                    2: ["forall(lambda k: vel_clamped(self, individuals[k]) and valid(individuals[k].features['velocity']) and "
                        "individuals[k].features['velocity'] is not individual.features['velocity'], 0, _k1)",
                        "bounds_same(self)", "vectors_same(individuals)", "leaders_same(self)", "stable(individuals)",
                        "unchanged(self.parameters)", "leaders_wf(self)", "particles_wf(self, individuals)", "box_wf(self)",
                        "_k1 < len(individuals)", "individual is individuals[_k1]", "_k2 <= len(self.parameters)",
                        "fresh(individual.features['velocity'])", "len(individual.features['velocity']) == len(self.parameters)",
                        "forall(lambda t: individual.features['velocity'][t] <= half_range(lbp(self, t), ubp(self, t)) and "
                        "individual.features['velocity'][t] >= -half_range(lbp(self, t), ubp(self, t)), 0, _k2)",
                        "exists(lambda i: global_best is self.leaders._contents[i], 0, len(self.leaders._contents))"]},
             modifies=["each(individuals).features.velocity", "$list.Real", "$len.Real"], allocates=["$list.Real", "$len.Real", "$list.Ref", "$len.Ref"])


_update_velocity("artap.algorithm_swarm:SwarmAlgorithm.update_velocity")
_update_velocity("artap.algorithm_swarm:PSOGA.update_velocity")

contract("artap.algorithm_swarm:SwarmAlgorithm.init_pbest", props=["C18"],
         types={"population": "List[Ref[Individual]]"},
         requires=["distinct_features(population)", "forall(lambda i: valid(population[i]) and valid(population[i].features), 0, len(population))"],
         ensures=["forall(lambda i: population[i].features['best_cost'] is population[i].costs_signed and "
                  "population[i].features['best_vector'] is population[i].vector, 0, len(population))"],
         loops={1: ["forall(lambda i: population[i].features['best_cost'] is population[i].costs_signed and "
                    "population[i].features['best_vector'] is population[i].vector, 0, _k)"]},
         modifies=["each(population).features.best_cost", "each(population).features.best_vector"])

# ---- update_global_best: the leader archive stays bounded by the population size and mutually non-dominated ------------------
def _ugb(cls):
    contract("artap.algorithm_swarm:%s.update_global_best" % cls, props=["C18"],
             types={"swarm": "List[Ref[Individual]]"},
             requires=["valid(self.leaders) and valid(self.leaders._contents) and valid(self.options) and valid(swarm)",
                       "self.options['max_population_size'] >= 0", "swarm is not self.leaders._contents",
                       "front_wf(swarm)", "distinct_list(swarm)", "arch_inv(self.leaders)", "pool_wf(self.leaders, swarm)"],
             ensures=["len(self.leaders._contents) <= self.options['max_population_size']", "arch_inv(self.leaders)",
                      # every leader is an old leader or a member of the swarm
                      "forall(lambda i: exists(lambda t: self.leaders._contents[i] is old(swarm[t]), 0, old(len(swarm))) or "
                      "exists(lambda j: self.leaders._contents[i] is old(self.leaders._contents[j]), 0, old(len(self.leaders._contents))), "
                      "0, len(self.leaders._contents))"],
             modifies=["list(swarm)", "each(swarm).features.crowding_distance", "self.leaders._contents", "list(self.leaders._contents)"],
             allocates=["$list.Ref", "$len.Ref"])


_ugb("SMPSO")
_ugb("PSOGA")

# OMOPSO.update_global_best (sort the swarm, append its first front to the leaders, truncate, extend the external archive) was
# attempted with the same invariants as Archive.__iadd__: 123 of 137 obligations were discharged, the remaining ones (archive
# well-formedness carried across the assumed sorter contract) stayed undecided, so the function is NOT under contract; the
# leader-archive bound for OMOPSO is covered by the bounded whole-run scenarios only.

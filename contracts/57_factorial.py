# ---- C13: factorial and screening designs (numpy code: BOUNDED run-time contracts only; nothing here is counted as proved) --
_B = dict(options={"bounded_only": True}, props=["C13"])
define("lv", ["p", "center"], "([p['bounds'][0], (p['bounds'][0] + p['bounds'][1]) / 2.0, p['bounds'][1]] if center else [p['bounds'][0], p['bounds'][1]])")
define("as_set", ["rows"], "set(tuple(float(c) for c in r) for r in rows)")
define("grid_of", ["levels"], "set(itertools.product(*[[float(c) for c in l] for l in levels]))")
contract("artap.operators:FullFactorGenerator.generate", trusted="bounded: numpy code (fullfact)",
         ensures=["len(result) == len(grid_of([lv(p, self.center) for p in self.parameters]))",
                  "as_set(result) == grid_of([lv(p, self.center) for p in self.parameters])"], **_B)
contract("artap.operators:FullFactorLevelsGenerator.generate", trusted="bounded: numpy code (fullfact)",
         ensures=["len(result) == len(grid_of(self.values))", "as_set(result) == grid_of(self.values)"], **_B)
contract("artap.operators:PlackettBurmanGenerator.generate", trusted="bounded, but COMPLETE over the supported sizes (1..23 factors)",
         ensures=["len(result) == 4 * (len(self.parameters) // 4 + 1)",
                  "all(len(r) == len(self.parameters) for r in result)",
                  "all(float(r[j]) in (float(p['bounds'][0]), float(p['bounds'][1])) for r in result for j, p in enumerate(self.parameters))",
                  # balanced columns
                  "all(sum(1 for r in result if float(r[j]) == float(p['bounds'][0])) * 2 == len(result) for j, p in enumerate(self.parameters))",
                  # mutually orthogonal columns (in -1 / +1 coding)
                  "all(sum((1 if float(r[j]) == float(p['bounds'][1]) else -1) * (1 if float(r[k]) == float(q['bounds'][1]) else -1) for r in result) == 0 "
                  "for j, p in enumerate(self.parameters) for k, q in enumerate(self.parameters) if j < k)"], **_B)
contract("artap.operators:BoxBehnkenGenerator.generate", trusted="bounded: numpy code (bbdesign)",
         ensures=["len(result) == 4 * (len(self.parameters) * (len(self.parameters) - 1) // 2) + 1",
                  "as_set(result) == ghost_bb(self.parameters)", "len(as_set(result)) == len(result)"], **_B)
contract("artap.doe:build_gsd", trusted="bounded: numpy code (gsd)",
         ensures=["ghost_gsd_ok(levels, reduction, n, result)"], **_B)

# ---- C04: archive = non-dominated set of everything offered -------------------------------------------
# Abstract comparator used by Archive (Pareto or epsilon): an uninterpreted function of the two cost lists
# with the axioms below; every axiom is *proved* for both concrete comparators (refinement obligations).
_H = ["$list.Real", "$len.Real"]
_CP = [("c", "Ref[Dominance]"), ("p", "List[Real]"), ("q", "List[Real]")]
declare_fun("acmp", _CP, "Int", heap=_H)
declare_fun("cmp_ok", _CP, "Bool", heap=_H + ["EpsilonDominance.epsilons"])
define("pareto_as_cmp", ["c", "p", "q"], "pareto_spec(p, q)")
define("eps_as_cmp", ["c", "p", "q"], "eps_spec(p, q)")
define("wf2", ["p", "q"], "len(p) == len(q) and len(p) >= 2")

contract("Dominance.compare", abstract=True, params=["self", "p", "q"], props=["C04", "C18", "C02", "C03", "C09"],
         types={"self": "Ref[Dominance]", "p": "List[Real]", "q": "List[Real]", "result": "Int"},
         requires=["len(p) == len(q)", "len(p) >= 2", "cmp_ok(self, p, q)"],
         returns="acmp(self, p, q)", pure=True,
         notes="refined by ParetoDominance.compare (cmp_ok := True) and EpsilonDominance.compare "
               "(cmp_ok := positive epsilons and rounding-separated pair)")

_INST = [{"acmp": "pareto_as_cmp"}, {"acmp": "eps_as_cmp"}]
_V3 = [("c", "Ref[Dominance]"), ("p", "List[Real]"), ("q", "List[Real]"), ("r", "List[Real]")]
axiom("cmp_range", vars=_V3[:3], instances=_INST, props=["C04"],
      body="implies(wf2(p, q), acmp(c, p, q) == 0 or acmp(c, p, q) == 1 or acmp(c, p, q) == 2)")
axiom("cmp_zero_sym", vars=_V3[:3], instances=_INST, props=["C04"],
      body="implies(wf2(p, q) and acmp(c, p, q) == 0, acmp(c, q, p) == 0)")
axiom("cmp_one_two", vars=_V3[:3], instances=_INST, props=["C04"],
      body="implies(wf2(p, q) and acmp(c, p, q) == 1, acmp(c, q, p) == 2)")
axiom("cmp_irrefl", vars=_V3[:2], instances=_INST, props=["C04"],
      body="implies(len(p) >= 2, acmp(c, p, p) != 1)")
axiom("cmp_trans", vars=_V3, instances=_INST, props=["C04"],
      body="implies(wf2(p, q) and wf2(q, r) and acmp(c, p, q) == 1 and acmp(c, q, r) == 1, acmp(c, p, r) == 1)")
axiom("cmp_two_one", vars=_V3, instances=_INST, props=["C04"],
      body="implies(wf2(p, q) and wf2(p, r) and acmp(c, p, q) == 2 and acmp(c, p, r) == 1, acmp(c, q, r) == 1)")
axiom("cmp_eq_congr", vars=_V3, instances=_INST, props=["C04"],
      body="implies(wf2(p, q) and wf2(p, r) and seq_eq(p, q) and acmp(c, p, r) == 1, acmp(c, q, r) == 1)")
axiom("cmp_cover_trans", vars=_V3, instances=_INST, props=["C04"],
      body="implies(wf2(p, q) and wf2(r, q) and acmp(c, p, q) == 2 and acmp(c, r, q) == 1, acmp(c, p, r) == 2)")
axiom("cmp_cover_eq", vars=_V3, instances=_INST, props=["C04"],
      body="implies(wf2(p, q) and wf2(r, q) and seq_eq(p, q) and acmp(c, r, q) == 1, acmp(c, p, r) == 2)")
_CMP = ["cmp_range", "cmp_zero_sym", "cmp_one_two", "cmp_irrefl", "cmp_trans", "cmp_two_one", "cmp_eq_congr"]

define("cI", ["a", "x", "s"], "acmp(a._dominance, x.costs_signed, s.costs_signed)")
define("eqI", ["x", "s"], "seq_eq(x.costs_signed, s.costs_signed)")
define("wfI", ["x", "s"], "len(x.costs_signed) == len(s.costs_signed) and len(x.costs_signed) >= 2")
define("arch_inv", ["a"],
       "forall(lambda i, j: implies(i != j, a._contents[i] is not a._contents[j] and "
       "cI(a, a._contents[i], a._contents[j]) == 0 and not eqI(a._contents[i], a._contents[j])), "
       "(0, len(a._contents)), (0, len(a._contents)))")
define("arch_wf", ["a", "x"],
       "forall(lambda i: valid(a._contents[i]) and wfI(x, a._contents[i]) and "
       "cmp_ok(a._dominance, x.costs_signed, a._contents[i].costs_signed), 0, len(a._contents))")
define("loses", ["a", "x", "s"], "cI(a, x, s) == 2 or (cI(a, x, s) == 0 and eqI(x, s))")
# history-level statement (C04): `offered` is an arbitrary (uninterpreted) set of individuals -- everything ever offered.
# covered(a, o): o is a member, or is dominated by / equal to / in the box of a current member.
declare_fun("offered", [("o", "Ref[Individual]")], "Bool")
define("covered", ["a", "o"],
       "exists(lambda i: a._contents[i] is o or loses(a, o, a._contents[i]), 0, len(a._contents))")

_ADD_AX = ["cmp_range", "cmp_zero_sym", "cmp_one_two", "cmp_two_one", "cmp_eq_congr", "cmp_cover_trans", "cmp_cover_eq"]
_ADD_REQ0 = ["arch_inv(self)", "arch_wf(self, individual)", "len(individual.costs_signed) >= 2"]
_ADD_ENS = [
             "result == (not exists(lambda j: loses(self, individual, old(self._contents[j])), 0, old(len(self._contents))))",
             "implies(not result, unchanged(self._contents))",
             "implies(result, len(self._contents) >= 1 and self._contents[len(self._contents) - 1] is individual)",
             "implies(result, forall(lambda i: exists(lambda j: self._contents[i] is old(self._contents[j]) and "
             "cI(self, individual, old(self._contents[j])) != 1, 0, old(len(self._contents))), 0, len(self._contents) - 1))",
             "implies(result, forall(lambda j: implies(cI(self, individual, old(self._contents[j])) != 1, "
             "exists(lambda i: self._contents[i] is old(self._contents[j]), 0, len(self._contents) - 1)), 0, old(len(self._contents))))",
             "arch_inv(self)",
         ]
_ADD_INV = [
             "stable(_it)", "_k <= len(_it)",
             "len(_it) == old(len(self._contents))",
             "forall(lambda j: _it[j] is old(self._contents[j]), 0, len(_it))",
             "0 <= number_of_deleted_solutions and number_of_deleted_solutions <= _k",
             "len(self._contents) == len(_it) - number_of_deleted_solutions",
             "forall(lambda j: self._contents[j - number_of_deleted_solutions] is _it[j], _k, len(_it))",
             "forall(lambda i: self._contents[i] is _it[i + number_of_deleted_solutions], _k - number_of_deleted_solutions, len(self._contents))",
             "forall(lambda i: exists(lambda j: self._contents[i] is _it[j] and cI(self, individual, _it[j]) != 1, 0, _k), "
             "0, _k - number_of_deleted_solutions)",
             "forall(lambda j: implies(cI(self, individual, _it[j]) != 1, "
             "exists(lambda i: self._contents[i] is _it[j], 0, _k - number_of_deleted_solutions)), 0, _k)",
             "forall(lambda j: not loses(self, individual, _it[j]), 0, _k)",
             "implies(number_of_deleted_solutions > 0, exists(lambda j: cI(self, individual, _it[j]) == 1, 0, _k))",
             "implies(number_of_deleted_solutions == 0, forall(lambda j: self._contents[j] is _it[j], 0, _k))",
             "forall(lambda i, j: implies(i != j, self._contents[i] is not self._contents[j]), "
             "(0, len(self._contents)), (0, len(self._contents)))",
             "not is_dominated and not is_contained",
         ]
_ADD_TYPES = {"individual": "Ref[Individual]", "result": "Bool"}
_ADD_LOCALS = {"is_dominated": "Bool", "is_contained": "Bool"}
contract("artap.archive:Archive.add", props=["C04", "C18"], axioms=_ADD_AX, types=_ADD_TYPES, locals=_ADD_LOCALS,
         requires=_ADD_REQ0, ensures=_ADD_ENS, loops={1: _ADD_INV}, modifies=["list(self._contents)"])

# history view of add (C04): for an ARBITRARY set `offered` of individuals that are all covered before the call, everything
# in offered and the newcomer are covered afterwards.  By induction over the history (offered = everything offered so far)
# the archive always covers every offered solution; together with arch_inv this is the statement of C04.
contract("artap.archive:Archive.add#history", props=["C04"], axioms=_ADD_AX, types=_ADD_TYPES, locals=_ADD_LOCALS,
         requires=_ADD_REQ0 + [
             "forall(lambda o: implies(offered(o), valid(o) and len(o.costs_signed) == len(individual.costs_signed) "
             "and covered(self, o)), 'Ref[Individual]')"],
         ensures=["covered(self, individual)",
                  "forall(lambda o: implies(offered(o), covered(self, o)), 'Ref[Individual]')"],
         loops={1: _ADD_INV}, modifies=["list(self._contents)"])

# ---- Archive.truncate: keeps the `size` members with the largest (smallest) value of the chosen feature ----------
define("featv", ["x", "g"], "x.features[g]")
define("distinct_members", ["a"],
       "forall(lambda i, j: implies(i != j, a._contents[i] is not a._contents[j]), (0, len(a._contents)), (0, len(a._contents)))")
contract("artap.archive:Archive.truncate", props=["C04", "C18"],
         types={"size": "Int", "getter": "Str", "larger_preferred": "Bool"},
         locals={"result": "List[Ref[Individual]]"},
         requires=["size >= 0"],
         ensures=[
             "len(self._contents) == (size if size < old(len(self._contents)) else old(len(self._contents)))",
             "forall(lambda i: exists(lambda j: self._contents[i] is old(self._contents[j]), 0, old(len(self._contents))), "
             "0, len(self._contents))",
             "implies(larger_preferred, forall(lambda i, j: implies(forall(lambda t: self._contents[t] is not old(self._contents[j]), "
             "0, len(self._contents)), featv(old(self._contents[j]), getter) <= featv(self._contents[i], getter)), "
             "(0, len(self._contents)), (0, old(len(self._contents)))))",
             "implies(not larger_preferred, forall(lambda i, j: implies(forall(lambda t: self._contents[t] is not old(self._contents[j]), "
             "0, len(self._contents)), featv(old(self._contents[j]), getter) >= featv(self._contents[i], getter)), "
             "(0, len(self._contents)), (0, old(len(self._contents)))))",
             "implies(old(distinct_members(self)), distinct_members(self))",
             "implies(old(arch_inv(self)), arch_inv(self))",
             "unchanged(old(self._contents))",
         ],
         modifies=["self._contents"], allocates=["$list.Ref", "$len.Ref"])

# ---- clients of add ------------------------------------------------------------------------------------------
_ADD_REQ = ["arch_inv(self)", "arch_wf(self, individual)", "len(individual.costs_signed) >= 2"]
contract("artap.archive:Archive.append", props=["C04", "C18"], axioms=["cmp_range"],
         types={"individual": "Ref[Individual]"},
         requires=_ADD_REQ,
         ensures=["arch_inv(self)",
                  "forall(lambda i: self._contents[i] is individual or "
                  "exists(lambda j: self._contents[i] is old(self._contents[j]), 0, old(len(self._contents))), 0, len(self._contents))"],
         modifies=["list(self._contents)"])

define("pool_wf", ["a", "xs"],
       "forall(lambda i: valid(xs[i]) and len(xs[i].costs_signed) >= 2 and arch_wf(a, xs[i]), 0, len(xs)) and "
       "forall(lambda i, j: wfI(xs[i], xs[j]) and cmp_ok(a._dominance, xs[i].costs_signed, xs[j].costs_signed), "
       "(0, len(xs)), (0, len(xs)))")
define("from_old_or", ["a", "xs", "n"],
       "forall(lambda i: exists(lambda t: a._contents[i] is xs[t], 0, n) or "
       "exists(lambda j: a._contents[i] is old(a._contents[j]), 0, old(len(a._contents))), 0, len(a._contents))")
contract("artap.archive:Archive.__iadd__", props=["C04", "C18"],
         types={"other": "List[Ref[Individual]]", "result": "Ref[Archive]"},
         requires=["arch_inv(self)", "pool_wf(self, other)", "other is not self._contents"],
         ensures=["result is self", "arch_inv(self)", "from_old_or(self, other, len(other))", "unchanged(other)"],
         loops={1: ["arch_inv(self)", "stable(other)", "_k <= len(other)",
                    "forall(lambda t: arch_wf(self, other[t]), _k, len(other))",
                    "from_old_or(self, other, _k)"]},
         modifies=["list(self._contents)"])

contract("artap.archive:Archive.remove", props=["C04", "C20"],
         types={"solution": "Ref[Individual]", "result": "Bool"},
         requires=["forall(lambda i: valid(self._contents[i]) and len(self._contents[i].vector) == len(solution.vector), 0, len(self._contents))",
                   "len(solution.vector) >= 1"],
         ensures=["result == exists(lambda i: old(self._contents[i]) is solution or vec_close(old(self._contents[i]), solution), "
                  "0, old(len(self._contents)))",
                  "implies(not result, unchanged(self._contents))",
                  "implies(result, len(self._contents) == old(len(self._contents)) - 1)",
                  # the element that disappeared is equal to `solution` in every coordinate (C20 client lemma)
                  "implies(result, exists(lambda r: (old(self._contents[r]) is solution or vec_close(old(self._contents[r]), solution)) and "
                  "forall(lambda i: self._contents[i] is old(self._contents[i if i < r else i + 1]), 0, len(self._contents)), "
                  "0, old(len(self._contents))))"],
         modifies=["list(self._contents)"])


# ---- order independence (C04): two archives (same comparator) that both satisfy the invariant and both cover the same
# arbitrary set of offered solutions hold the same cost vectors (same boxes for the epsilon comparator).
define("both_lose", ["a", "x", "y"], "loses(a, x, y) and loses(a, y, x)")
lemma("archive_order_independent", props=["C04"], axioms=_CMP + ["cmp_cover_trans", "cmp_cover_eq"],
      vars=[("a", "Ref[Archive]"), ("b", "Ref[Archive]"), ("n0", "Int"), ("i", "Int")],
      hyps=["a._dominance is b._dominance", "arch_inv(a)", "arch_inv(b)", "n0 >= 2",
            "forall(lambda t: offered(a._contents[t]), 0, len(a._contents))",
            "forall(lambda t: offered(b._contents[t]), 0, len(b._contents))",
            "forall(lambda o: implies(offered(o), len(o.costs_signed) == n0 and covered(a, o) and covered(b, o)), 'Ref[Individual]')",
            "0 <= i and i < len(a._contents)"],
      goal="exists(lambda j: b._contents[j] is a._contents[i] or both_lose(a, a._contents[i], b._contents[j]), 0, len(b._contents))")

# Per-property settings of the check driver: level, whether a bounded run-time evaluation of the contracts is attached,
# assumptions and clauses that are not decided.
prop("C01", level="proof", runtime=True,
     assumptions=["finite floats: comparisons, abs and unary minus on finite floats coincide with the reals they denote (exact)",
                  "epsilon comparator: verdict agreement is proved for rounding-separated pairs (precondition `separated`), "
                  "as the property states; float division is an uninterpreted function"],
     not_decided=[])
prop("C04", level="proof", runtime=True,
     assumptions=["epsilon comparator instance: every compared pair is rounding-separated and epsilons are positive (cmp_ok)",
                  "all cost vectors offered to one archive have the same length >= 2"],
     not_decided=["Archive.truncate / extend / __iadd__ clients: see functions_under_contract for what is covered"])
prop("C20", level="proof", runtime=True,
     assumptions=["A1: the subtraction in |a_i - b_i| < 1e-10 is real subtraction"], not_decided=[])
prop("C18", level="proof", runtime=True,
     assumptions=["particles of one batch have pairwise distinct feature dictionaries, vector lists and velocity lists "
                  "(true for CopySelector output; PSOGA appends two offspring that SHARE the feature dict of their parents - "
                  "that aliasing case is outside the precondition and therefore not covered)",
                  "A1: velocity formula treated as an arbitrary real; clamp comparisons are exact",
                  "lb <= ub for every parameter"],
     not_decided=["OMOPSO.update_global_best (leader archive bound for OMOPSO): attempted, 123 of 137 obligations discharged, not under "
                  "contract; SMPSO / PSOGA.update_global_best are proved; the OMOPSO leader bound is covered by the bounded whole-run "
                  "scenarios of C09 only"])
prop("C19", level="proof", runtime=True,
     assumptions=["A2: the objective and the predict hook are arbitrary user code that returns a fresh list (or None) and does not "
                  "touch the surrogate's counters or data; the ghost call log is part of that assumed contract",
                  "train() of the scikit/SMT subclasses is assumed to set `trained` and leave counters and data alone",
                  "problem.surrogate is the surrogate itself (true at every construction site); train_step != 0"],
     not_decided=[])
prop("C05", level="proof", runtime=True,
     assumptions=["A2: objective / constraint functions are arbitrary user code returning fresh lists; the ghost call log "
                  "(ghost_calls, ghost_last_*) is part of that assumed contract",
                  "default pass-through surrogate (ghost flag `passthrough`) for the exactly-once clauses",
                  "serial evaluation (max_processes <= 1); evaluate_parallel is assumed (see C07)",
                  "designs of one batch have pairwise distinct costs / costs_signed lists and feature dicts",
                  "np.round is an uninterpreted function round_dec(x, n); products sign*value uninterpreted (functional)",
                  "Problem.__init__: only the sign loop is verified (region contract)",
                  "scipy.optimize.minimize / nlopt.opt are external: call-site obligation only (the callable is evaluate_scalar)"],
     not_decided=["NLopt.run's set_min_objective call site (nlopt object model not built)"])
prop("C06", level="proof", runtime=True,
     assumptions=["A2 as in C05; an exception other than TimeoutError/RuntimeError is modelled as one class `OtherError`",
                  "A1: gen_number over the reals (|round(x/p)*p - x| <= p/2)",
                  "parameters have bounds with lb <= ub, no 'parameter_type' key (real parameters)"],
     not_decided=["failures in parallel workers (C07)"])
prop("C14", level="proof", runtime=True,
     assumptions=["A2 objective as in C05; A1 real arithmetic for |f(x) - f(neighbour)|, sums and the difference quotient",
                  "sum(list) is the recursive spec function seqsum with a congruence axiom",
                  "WorstCaseEvaluator.run is verified in two sequential steps (region contracts run#1-evaluate, run#2-postprocess); "
                  "the frame of step 2 is stated coarsely (whole arrays)",
                  "designs of one batch are pairwise distinct objects owning their lists (ghost ownership)"],
     not_decided=["orchestration of evaluate(): that add() establishes run()'s precondition for every batch is checked at run time "
                  "only (bounded, multi-batch histories); GradientEvaluator.run step 1 (base evaluation) reuses Evaluator.evaluate's proof",
                  "exactly n additional objective evaluations per design for the gradient evaluator: bounded run-time check only"])
prop("C16", level="proof", runtime=True,
     assumptions=["A1: identities hold over the reals (up to rounding in floating point)",
                  "A5: sin/cos/sqrt/pow are uninterpreted functions with the elementary facts listed in the models",
                  "recursive spec functions (products, sums of squares): frame axioms by induction on the length (trusted); "
                  "sum(): congruence / lower-bound / first-element facts (trusted)",
                  "DTLZ2-4: dimension = m + 9 (k = 10 distance variables, as hard-coded); DTLZ1: any k >= 1"],
     not_decided=["'the Pareto-optimal set maps onto the simplex / unit sphere' is the instance g = 0 of the proved identities"])
prop("C17", level="proof", runtime=True,
     assumptions=["A1 real arithmetic for the coordinate differences of the epsilon indicator",
                  "Results.goal_index / parameter_index (next() over a generator) are assumed contracts, checked at run time only",
                  "eps_equals_shift uses the existence of a minimal reference point (finite strict partial order; Mathlib lemma "
                  "Finite.wellFounded_of_trans_of_irrefl + WellFounded.has_min), stated as a hypothesis of the lemma"],
     not_decided=["generational distance gd(): scipy cdist / numpy reductions are outside the subset: bounded run-time contract only",
                  "sorted listings (goal_on_parameter sorted, parameter_on_goal, parameter_on_parameter), goal_on_index, parameter_on_index, "
                  "parameters(), costs(), pareto_front(), pareto_individuals(): bounded run-time contracts against an independent reading "
                  "(sorted(), zip and dict views are outside the subset); table(), export_to_csv(), performance_measure(): not under contract"])
prop("C15", level="other", runtime=True,
     explanation="Partial: for 12 benchmark functions (Sphere, Rosenbrock, Rastrigin, Zakharov, Alpine, Griewank, Booth, Xin-She-Yang 1 and 3, "
                 "Ackley, ModifiedEasom, SixHump) the three clauses (one real cost; nothing in the box is better than the documented "
                 "optimum - 1e-3; optimum attained at the documented coordinates) are discharged deductively from loop invariants, the "
                 "elementary-function axioms and polynomial arithmetic. For Schwefel, Michalewicz, Schubert, GramacyLee, Perm, "
                 "Xin-She-Yang 2 and the four Synthetic functions the clauses need certified numerics over a box (a different technique): "
                 "only a bounded run-time evaluation is attached. EqualityConstr cannot be brought under contract (known finding).",
     assumptions=["A1 real arithmetic; A5 elementary-function axioms (sin, cos, exp, sqrt, pow, pi, e)",
                  "numpy scalars and Python floats are both modelled as reals; the `total / finite` clause is only the shape obligation "
                  "`returns a list of one real` plus the bounded run-time check"],
     not_decided=["bound and optimum clauses of Schwefel, Michaelwicz (2/5/10), Schubert, GramacyLee, Perm, XinSheYang2, Synthetic1D/2D/5D/10D: bounded only"])
prop("C03", level="proof", runtime=True,
     assumptions=["sorted(key=cmp_to_key(f)) returns an ordered permutation when f is a total preorder on the elements "
                  "(the three order lemmas ncmp_* are proved; the library sort is trusted)",
                  "list(set(xs)) is modelled as a duplicate-free selection of xs under Individual.__eq__/__hash__ (C20) in which "
                  "every member of xs is represented",
                  "A1: crowding-distance arithmetic over the extended reals; float division is an uninterpreted function with "
                  "0 <= x/y <= 1 for 0 <= x <= y, y > 0",
                  "random.sample(xs, 2) returns two members at different positions"],
     not_decided=["the call sites in NSGAII.run that rank the pool (fast_nondominated_sorting, see C02) before truncating it"])
prop("C02", level="other", runtime=True,
     explanation="Partial. PROVED for every population, size and input order (loop invariants over all seven loops of the real "
                 "fast_nondominated_sorting, no cardinalities needed): front 1 is EXACTLY the set of members that no other member "
                 "dominates, no member ever carries a front number below 1, and every member of a later front is dominated by a member "
                 "of the PREVIOUS front (so a front number never exceeds the true Pareto rank: there is a chain of that many "
                 "dominators); also the id lookup Selector.individual, "
                 "crowding_distance (called once per front; its precondition is discharged at the call) and three consequences of "
                 "the rank specification (lemmas). The sorter is verified against the comparator-agnostic reading of its own "
                 "verdicts (compare(X[min], X[max]) == 1 / == 2); three lemmas show that for the Pareto comparator this is the "
                 "textbook dominance relation. NOT proved: that ALL dominators of a member lie in earlier fronts (the other half of the "
                 "rank law: front number >= true rank) and that nobody is left unranked: the counter argument needs "
                 "per-member ghost lists of unprocessed dominators and a well-foundedness lemma that were not discharged. The COMPLETE "
                 "specification is evaluated at run time on the real function over every sequence of n<=3 (quick) / n<=4 (thorough) "
                 "points of a 3x3 grid, i.e. all order types and input orders of that size, plus random larger populations with "
                 "infeasibility markers: bounded.",
     assumptions=["population members are pairwise distinct objects with distinct ids and own feature dictionaries (pop_wf)",
                  "epsilon comparator: the proved clause is about the sorter's own reading of the verdicts (domidx); the bridge to "
                  "textbook dominance is proved for the Pareto comparator only"],
     not_decided=["rank law for fronts > 1 and 'nobody unranked' beyond the explored bound"])
prop("C08", level="proof", runtime=True,
     assumptions=["A1: arithmetic over the reals; A5: pow is an uninterpreted function with the sign / unit-interval facts of x**y "
                  "for x >= 0; random.random() in [0,1), random.uniform(a,b) between a and b",
                  "parameters have bounds lb < ub (the operators divide by ub - lb); distribution indices >= 0; "
                  "non-uniform mutation: 0 <= iteration <= max_iterations, max_iterations > 0, perturbation >= 0",
                  "parent1.__class__(v) is modelled as Individual(v)",
                  "heap-dependent spec functions keep their value on pre-existing arguments when a loop only adds objects (footprint)"],
     not_decided=["design-of-experiment generators (LHS, Halton, uniform grid, ...): see C12; only gen_vector / gen_number "
                  "(RandomGenerator's source of numbers) is proved",
                  "'every design evaluated during a run': the steps are proved (generate, mutators, SBX, update_position, the OMOPSO / SMPSO "
                  "turbulence steps, gen_vector re-rolls) but their orchestration in NSGAII / EpsMOEA / OMOPSO / SMPSO / PSOGA.run is a bounded "
                  "run-time check on real runs (objective records every vector it is handed)",
                  "exact float rounding of clip results (clip returns one of its arguments, so it is exact) vs. gen_number's 1e-12 rounding: over the reals"])
prop("C09", level="other", runtime=True,
     explanation="Partial. Proved deductively: GeneticAlgorithm.generate returns exactly max_population_size pairwise different, "
                 "unevaluated children inside the box (population sizes >= 2); Selector.pop_acceptance keeps the size of the "
                 "working population and follows the stated replacement rule; nondominated_truncate never keeps a design that is "
                 "worse (front, crowding) than one it cuts (C03); each design of a batch is evaluated exactly once, also under "
                 "transient failures (C05/C06). NOT proved: the run loops that compose these steps (generation tags, N*G and "
                 "N*(G+1) budgets, elitism across generations): they are evaluated on real runs of all four algorithms over small "
                 "configurations with and without injected transient failures (bounded).",
     assumptions=["as C03, C05, C08 for the step functions"],
     not_decided=["NSGAII.run, EpsMOEA.run, OMOPSO.run, SMPSO.run as wholes: bounded run-time contracts only",
                  "termination of generate() (partial correctness)"])
prop("C12", level="other", runtime=True,
     explanation="Partial. Proved deductively: _van_der_corput returns, for every base >= 2 and length, the radical inverse of each "
                 "index (recursive spec function radinv; the Halton law per coordinate); construct_df_from_random_matrix is the affine "
                 "map lb + u*|ub - lb| and keeps unit samples inside the bounds (used by the LHS, Halton and random builders); "
                 "RandomGenerator.generate returns exactly `number` in-bounds designs (gen_vector, C06); the level lists of "
                 "UniformGenerator.generate are the k equally spaced levels from the lower to the upper bound. NOT proved (numpy code: "
                 "lhs/_lhsclassic, the prime sieve, np.stack, itertools.product): the stratification of LHS designs, the choice of "
                 "prime bases and the burn-in offset of Halton, completeness of the grid are bounded run-time contracts against "
                 "independent references (exact-rational radical inverse, stratum counting).",
     assumptions=["A1 real arithmetic; integer // and % are Python floor division", "a numpy 2-D array iterates as its rows",
                  "recursive spec function radinv is unfolded at the points named by the ghost hints (definitional axiom)"],
     not_decided=["LHSGenerator.generate, HaltonGenerator.generate as wholes, UniformGenerator's itertools.product: bounded only",
                  "_primes_from_2_to (numpy sieve): bounded only, through the Halton scenario (first 5 primes)"])
prop("C10", level="other", runtime=True,
     explanation="Partial. Proved deductively against an abstract model of sqlite3 (a connection counts the statements executed "
                 "since its last commit): sync_individual executes exactly the upsert statement `INSERT ... ON CONFLICT(id) DO UPDATE "
                 "SET individual=excluded.individual` (text read from the real class constant) for the individual's id and current "
                 "document and commits it before returning, also on the retry path and in both connection modes (a fresh connection per call "
                 "in the default thread-safe mode, one cached connection otherwise); sync_all executes one upsert per recorded "
                 "individual, in order, followed by one commit. NOT proved: what json and SQLite do with the documents. The round trip "
                 "(problem definition, vectors, costs, signed costs, population id, custom data, feature values; finite floats "
                 "bit-exact, infinities, numpy scalars, individuals inside feature values, re-synchronised ids: last wins, one row per "
                 "id; store complete after NSGA-II / eps-MOEA / SMPSO runs) is a bounded run-time contract on real SQLite files.",
     assumptions=["sqlite3: a statement that raises has no effect; commit is atomic; `ON CONFLICT(id) DO UPDATE` replaces the row",
                  "json.dumps / json.loads and Individual.to_dict / from_dict are not under contract (bounded round trip only)"],
     not_decided=["read_from_datastore, _create_structure, to_dict, from_dict: bounded only"])
prop("C11", level="other", runtime=True,
     explanation="Partial. The crash conditions that the code controls are proved: (1) Job.evaluate hands a design to the store only "
                 "after its evaluation is complete (state EVALUATED, costs and signed costs set: precondition of the store "
                 "interface, discharged at the call site on every path); (2) SqliteDataStore.sync_individual returns only after the "
                 "upsert of that design's current document has been committed, with nothing pending on the connection; (3) in the default "
                 "thread-safe mode the connection is fresh and the rollback journal is never switched off. Together with "
                 "SQLite's atomic, journalled commit (assumed, external) every synchronised design is durable and no row is partial. "
                 "The remaining part of the statement (process death at every moment, file readable afterwards) is a bounded crash "
                 "exploration: the writer of a small serial NSGA-II run is killed with os._exit at every objective call and before / "
                 "after every execute and commit, and the file is reopened by a fresh read-mode view.",
     assumptions=["SQLite commit atomicity and roll-back of uncommitted statements (external)",
                  "SqliteDataStore.conn is under contract (default thread-safe mode: a fresh connection on which `PRAGMA journal_mode = OFF` "
                  "was never executed); sqlite3.connect, cursor(), execute() and commit() themselves are abstract (external); "
                  "sqlite3.connect is assumed not to raise"],
     not_decided=["parallel evaluation (C07)", "death at arbitrary wall-clock instants between the enumerated events: bounded exploration only"])
prop("C13", level="exploration", runtime=True,
     explanation="BOUNDED, nothing proved: the designs are built by numpy code (fullfact, pbdesign with Toeplitz / Hankel / Kronecker "
                 "constructions, bbdesign, gsd) outside the verifier's subset. The defining structure is evaluated at run time on the "
                 "real generators against independent constructions: full factorials (every combination exactly once, 1..5 factors, "
                 "arbitrary level lists), Plackett-Burman for EVERY supported factor count 1..23 (only the two bounds, run count the "
                 "next multiple of four, balanced and pairwise orthogonal columns: complete over that finite domain), Box-Behnken for "
                 "3..8 factors (exactly the +/- corners of every factor pair at mid-level elsewhere plus one centre run), generalized "
                 "subset designs (duplicate-free subsets of the full factorial; the r complementary designs of reduction r pairwise "
                 "disjoint and jointly the whole factorial) for 2..4 factors with 2..5 levels.",
     assumptions=[], not_decided=["factor counts / level lists / reductions outside the explored ranges"])

# ---- C05: batches, scalar bridge, Algorithm.evaluate ------------------------------------------------------------------
define("batch_wf", ["e", "xs"],
       "valid(e.job) and valid(e.job.problem) and "
       "forall(lambda i: valid(xs[i]) and job_wf(e.job, xs[i]) and xs[i].costs is not e.job.problem.surrogate.x_data, 0, len(xs)) and "
       "xs is not e.job.problem.failed and xs is not e.job.problem.surrogate.x_data and xs is not e.job.problem.surrogate.y_data")
_B_ENS = [
    # every design that was EMPTY has been evaluated exactly once more, every other design not at all
    "forall(lambda i: individuals[i].ghost_evals == old(individuals[i].ghost_evals) + (1 if old(individuals[i].state) == 0 else 0), 0, len(individuals))",
    "forall(lambda i: implies(old(individuals[i].state) == 0, individuals[i].state == 2), 0, len(individuals))",
    "forall(lambda i: implies(old(individuals[i].state) != 0, individuals[i].state == old(individuals[i].state) and "
    "individuals[i].costs is old(individuals[i].costs) and individuals[i].vector is old(individuals[i].vector)), 0, len(individuals))",
    "forall(lambda i: implies(old(individuals[i].state) == 0, signed_image(individuals[i], self.job.problem.signs)), 0, len(individuals))",
    "unchanged(individuals)", "batch_wf(self, individuals)",
    "forall(lambda i: implies(old(individuals[i].state) == 0, len(individuals[i].costs) == self.job.problem.ghost_ncosts and "
    "fresh(individuals[i].costs) and fresh(individuals[i].costs_signed)), 0, len(individuals))",
    "forall(lambda i: implies(old(individuals[i].state) != 0, unchanged(individuals[i].costs) and "
    "individuals[i].costs_signed is old(individuals[i].costs_signed)), 0, len(individuals))",
]
_B_MOD = ["each(individuals).state", "each(individuals).costs", "each(individuals).costs_signed", "each(individuals).vector",
          "each(individuals).ghost_evals", "each(individuals).features.start_time", "each(individuals).features.finish_time",
          "each(individuals).features.feasible", "list(self.job.problem.failed)", "listof(each(individuals).costs)",
          "$cv.Individual.counter"] + \
         ["self.job.problem." + g for g in ("ghost_calls", "ghost_last_arg", "ghost_last_vec", "ghost_last_ret", "ghost_nontransient", "ghost_last_g", "ghost_last_g_vec")] + \
         ["self.job.problem.surrogate." + f for f in ("eval_counter", "predict_counter", "trained", "ghost_trains", "regressor")] + \
         ["list(self.job.problem.surrogate.x_data)", "list(self.job.problem.surrogate.y_data)"]
_B_INV = [
    "_k <= len(individuals)", "stable(individuals)", "batch_wf(self, individuals)",
    "forall(lambda i: individuals[i].ghost_evals == old(individuals[i].ghost_evals) + "
    "(1 if (old(individuals[i].state) == 0 and exists(lambda t: individuals[t] is individuals[i], 0, _k)) else 0), 0, len(individuals))",
    "forall(lambda i: implies(old(individuals[i].state) == 0 and exists(lambda t: individuals[t] is individuals[i], 0, _k), "
    "individuals[i].state == 2), 0, len(individuals))",
    "forall(lambda i: implies(old(individuals[i].state) == 0 and exists(lambda t: individuals[t] is individuals[i], 0, _k), "
    "signed_image(individuals[i], self.job.problem.signs)), 0, len(individuals))",
    "forall(lambda i: implies(old(individuals[i].state) != 0 or not exists(lambda t: individuals[t] is individuals[i], 0, _k), "
    "individuals[i].state == old(individuals[i].state) and individuals[i].costs is old(individuals[i].costs) and "
    "individuals[i].vector is old(individuals[i].vector) and unchanged(individuals[i].costs) and "
    "individuals[i].costs_signed is old(individuals[i].costs_signed)), 0, len(individuals))",
    "forall(lambda i: implies(old(individuals[i].state) == 0 and exists(lambda t: individuals[t] is individuals[i], 0, _k), "
    "len(individuals[i].costs) == self.job.problem.ghost_ncosts and fresh(individuals[i].costs) and "
    "fresh(individuals[i].costs_signed)), 0, len(individuals))",
]
contract("artap.operators:Evaluator.evaluate_serial", props=["C05", "C09", "C14"], options={"mul": "uninterpreted"},
         types={"individuals": "List[Ref[Individual]]"},
         requires=["batch_wf(self, individuals)"],
         ensures=_B_ENS, raises={"RuntimeError": [], "OtherError": []},
         loops={1: _B_INV}, modifies=_B_MOD, allocates=_ALLOC_IND)

_MUL = {"mul": "uninterpreted"}
contract("artap.operators:Evaluator.evaluate_parallel", abstract=True, params=["self", "individuals"], props=["C05"],
         trusted="parallel evaluation (joblib threads) is outside the sequential verifier: see C07 (not applicable)",
         types={"self": "Ref[Evaluator]", "individuals": "List[Ref[Individual]]"}, ensures=[])
contract("artap.operators:Evaluator.evaluate", props=["C05", "C09", "C14"], options=_MUL,
         types={"individuals": "List[Ref[Individual]]"},
         requires=["batch_wf(self, individuals)", "valid(self.algorithm) and valid(self.algorithm.options)",
                   "self.algorithm.options['max_processes'] <= 1"],
         ensures=_B_ENS, raises={"RuntimeError": [], "OtherError": []}, modifies=_B_MOD, allocates=_ALLOC_IND)

# scalar bridge used by SciPy / NLopt: the queried point is recorded with its true cost, the optimiser gets the signed cost
define("last_ind", ["e"], "e.algorithm.problem.individuals[len(e.algorithm.problem.individuals) - 1]")
contract("artap.operators:Evaluator.evaluate_scalar", props=["C05"], options=_MUL,
         types={"vector": "List[Real]", "result": "Real"},
         locals={"individual": "Ref[Individual]"},
         requires=["valid(self.algorithm) and valid(self.job) and self.algorithm.problem is self.job.problem",
                   "valid(self.job.problem) and valid(self.job.problem.individuals)",
                   "self.job.problem.individuals is not self.job.problem.failed and "
                   "self.job.problem.individuals is not self.job.problem.parameters and "
                   "self.job.problem.individuals is not self.job.problem.surrogate.x_data and "
                   "self.job.problem.individuals is not self.job.problem.surrogate.y_data",
                   "valid(self.job.problem.surrogate) and valid(self.job.problem.surrogate.problem) and "
                   "self.job.problem.surrogate.problem is self.job.problem and valid(self.job.problem.failed) and "
                   "valid(self.job.problem.parameters) and valid(self.job.problem.signs) and valid(self.job.problem.data_store) and "
                   "params_wf(self.job.problem.parameters) and valid(self.job.problem.surrogate.x_data) and "
                   "valid(self.job.problem.surrogate.y_data) and self.job.problem.surrogate.x_data is not self.job.problem.failed and "
                   "self.job.problem.surrogate.y_data is not self.job.problem.failed and "
                   "self.job.problem.surrogate.x_data is not self.job.problem.parameters and "
                   "self.job.problem.surrogate.y_data is not self.job.problem.parameters and "
                   "self.job.problem.failed is not self.job.problem.parameters",
                   "self.job.problem.ghost_ncosts >= 1", "len(self.job.problem.signs) >= 1", "valid(vector)"],
         ensures=["len(self.algorithm.problem.individuals) == old(len(self.algorithm.problem.individuals)) + 1",
                  "fresh(last_ind(self))", "last_ind(self).state == 2", "last_ind(self).ghost_evals == 1",
                  "implies(self.job.problem.surrogate.passthrough, seq_eq(last_ind(self).costs, self.job.problem.ghost_last_ret) and "
                  "self.job.problem.ghost_last_arg is last_ind(self) and self.job.problem.ghost_last_vec is last_ind(self).vector)",
                  "implies(n_failed(self.job) == 0, seq_eq(last_ind(self).vector, vector))",
                  # the optimiser receives the signed (sign * rounded) first cost, the record keeps the raw cost
                  "result == self.job.problem.signs[0] * round_dec(last_ind(self).costs[0], last_ind(self).features['precision'])",
                  "forall(lambda t: self.algorithm.problem.individuals[t] is old(self.algorithm.problem.individuals[t]), 0, "
                  "old(len(self.algorithm.problem.individuals)))"],
         raises={"RuntimeError": [], "OtherError": []},
         modifies=["list(self.algorithm.problem.individuals)", "list(self.job.problem.failed)", "$cv.Individual.counter",
                   "list(self.job.problem.surrogate.x_data)", "list(self.job.problem.surrogate.y_data)"] +
                  ["self.job.problem." + g for g in ("ghost_calls", "ghost_last_arg", "ghost_last_vec", "ghost_last_ret", "ghost_nontransient", "ghost_last_g", "ghost_last_g_vec")] +
                  ["self.job.problem.surrogate." + f for f in ("eval_counter", "predict_counter", "trained", "ghost_trains", "regressor")],
         allocates=_ALLOC_IND)

contract("artap.algorithm:Algorithm.evaluate", props=["C05", "C09"], options=_MUL,
         types={"individuals": "List[Ref[Individual]]"},
         requires=["valid(self.evaluator) and self.evaluator.algorithm is self and valid(self.options)",
                   "batch_wf(self.evaluator, individuals)", "self.options['max_processes'] <= 1"],
         ensures=[e.replace("self.job", "self.evaluator.job").replace("batch_wf(self,", "batch_wf(self.evaluator,") for e in _B_ENS] +
                 ["forall(lambda i: individuals[i].algorithm_id == self.uuid, 0, len(individuals))"],
         raises={"RuntimeError": [], "OtherError": []},
         loops={1: ["forall(lambda i: individuals[i].algorithm_id == self.uuid, 0, _k)"]},
         modifies=[m.replace("self.job", "self.evaluator.job") for m in _B_MOD] + ["each(individuals).algorithm_id"],
         allocates=_ALLOC_IND)

# sign list built at the end of Problem.__init__ (only that loop is inside the subset; the logging / tempdir set-up is not)
contract("artap.problem:Problem.__init__", props=["C05"], options={"region": "for cost in self.costs"},
         requires=["len(self.signs) == 0", "valid(self.costs) and valid(self.signs)",
                   "forall(lambda i: valid(self.costs[i]), 0, len(self.costs))"],
         ensures=["len(self.signs) == len(self.costs)",
                  "forall(lambda i: self.signs[i] == (-1 if ('criteria' in self.costs[i] and self.costs[i]['criteria'] != 'minimize') else 1), "
                  "0, len(self.costs))"],
         loops={1: ["len(self.signs) == _k", "_k <= len(self.costs)",
                    "forall(lambda i: self.signs[i] == (-1 if ('criteria' in self.costs[i] and self.costs[i]['criteria'] != 'minimize') else 1), 0, _k)"]},
         modifies=["list(self.signs)"],
         notes="region contract: precondition len(self.signs)==0 stands for `self.signs = []` earlier in __init__")

# ---- sweep: exactly the generator's designs, in order (C05) ------------------------------------------------------------
contract("Generator.generate", abstract=True, params=["self"], props=["C05", "C09", "C12"],
         trusted=None, types={"self": "Ref[Generator]", "result": "List[List[Real]]"},
         ensures=["fresh(result)", "forall(lambda i: valid(result[i]), 0, len(result))"],
         allocates=["$list.Real", "$len.Real", "$list.Ref", "$len.Ref"],
         notes="abstract generator: any list of vectors (the concrete generators are specified under C12/C13)")
contract("DataStore.sync_all", abstract=True, params=["self"], props=["C05", "C09", "C10"],
         trusted="store interface (C10)", types={"self": "Ref[DataStore]"}, ensures=[])

_RUN_MOD = ["list(self.problem.individuals)", "list(self.problem.failed)", "$cv.Individual.counter",
            "list(self.problem.surrogate.x_data)", "list(self.problem.surrogate.y_data)"] + \
           ["self.problem." + g for g in ("ghost_calls", "ghost_last_arg", "ghost_last_vec", "ghost_last_ret", "ghost_nontransient", "ghost_last_g", "ghost_last_g_vec")] + \
           ["self.problem.surrogate." + f for f in ("eval_counter", "predict_counter", "trained", "ghost_trains", "regressor")] + \
           ["Individual." + f for f in ("state", "vector", "costs", "costs_signed", "ghost_evals", "algorithm_id", "population_id",
                                        "id", "parents", "children", "features", "custom")] + \
           ["Features.feasible", "Features.start_time", "Features.finish_time", "Features.precision", "$list.Real", "$len.Real"]
define("prob_wf", ["p"],
       "valid(p) and valid(p.surrogate) and valid(p.surrogate.problem) and p.surrogate.problem is p and valid(p.failed) and "
       "valid(p.parameters) and valid(p.signs) and valid(p.data_store) and params_wf(p.parameters) and valid(p.individuals) and "
       "valid(p.surrogate.x_data) and valid(p.surrogate.y_data) and p.surrogate.x_data is not p.failed and "
       "p.surrogate.y_data is not p.failed and p.surrogate.x_data is not p.parameters and p.surrogate.y_data is not p.parameters and "
       "p.failed is not p.parameters and p.individuals is not p.failed and p.individuals is not p.parameters and "
       "p.individuals is not p.surrogate.x_data and p.individuals is not p.surrogate.y_data")
define("new_inds", ["xs", "n"],
       "forall(lambda i: valid(xs[i]) and fresh(xs[i]) and xs[i].state == 0 and owns(xs[i]) and fresh(xs[i].features) and "
       "fresh(xs[i].vector) and fresh(xs[i].costs) and fresh(xs[i].costs_signed), 0, n) and "
       "forall(lambda i, j: implies(i != j, xs[i] is not xs[j]), (0, n), (0, n))")
contract("artap.algorithm_sweep:SweepAlgorithm.run", props=["C05"], options=_MUL,
         locals={"individuals": "List[Ref[Individual]]", "vectors": "List[List[Real]]"},
         requires=["prob_wf(self.problem)", "valid(self.generator)", "valid(self.evaluator) and self.evaluator.algorithm is self and "
                   "valid(self.options) and valid(self.evaluator.job) and self.evaluator.job.problem is self.problem",
                   "self.options['max_processes'] <= 1"],
         ensures=[
             # exactly the generator's designs were recorded, in order, and each was evaluated exactly once
             "forall(lambda t: self.problem.individuals[t] is old(self.problem.individuals[t]), 0, old(len(self.problem.individuals)))",
             "forall(lambda t: self.problem.individuals[t].state == 2 and fresh(self.problem.individuals[t]) and "
             "self.problem.individuals[t].ghost_evals == 1, old(len(self.problem.individuals)), len(self.problem.individuals))",
             # one recorded design per generated vector (repeated vectors included): gvecs is the generator's output
             "len(self.problem.individuals) == old(len(self.problem.individuals)) + len(gvecs)",
         ],
         ghost_results={"gvecs": "List[List[Real]]"},
         ghost={"after:vectors = self.generator.generate()": ["gvecs = vectors"],
                "before:self.evaluate(individuals)": ["glen = len(individuals)", "assert len(gvecs) == glen",
                                                      "assert len(self.problem.individuals) == old(len(self.problem.individuals)) + glen"],
                "after:self.evaluate(individuals)": ["assert len(gvecs) == glen",
                                                     "assert len(self.problem.individuals) == old(len(self.problem.individuals)) + glen"]},
         raises={"RuntimeError": [], "OtherError": []},
         loops={1: ["len(individuals) == _k", "_k <= len(vectors)", "fresh(individuals)", "stable(vectors)", "new_inds(individuals, _k)",
                    "forall(lambda i: seq_eq(individuals[i].vector, vectors[i]) and individuals[i].ghost_evals == 0, 0, _k)",
                    "prob_wf(self.problem)", "unchanged(self.problem.individuals)"],
                2: ["stable(individuals)", "_k <= len(individuals)", "stable(vectors)", "len(individuals) == len(vectors)", "gvecs is vectors",
                    "len(self.problem.individuals) == old(len(self.problem.individuals)) + _k",
                    "forall(lambda t: self.problem.individuals[t] is old(self.problem.individuals[t]), 0, old(len(self.problem.individuals)))",
                    "forall(lambda t: self.problem.individuals[old(len(self.problem.individuals)) + t] is individuals[t], 0, _k)",
                    "forall(lambda t: self.problem.individuals[t] is individuals[t - old(len(self.problem.individuals))], "
                    "old(len(self.problem.individuals)), len(self.problem.individuals))",
                    "new_inds(individuals, len(individuals))", "prob_wf(self.problem)",
                    "forall(lambda i: individuals[i].ghost_evals == 0, 0, len(individuals))"]},
         # a run is a top-level entry point: its frame is stated coarsely (whole arrays of the per-design fields)
         modifies=_RUN_MOD, allocates=_ALLOC_IND)

# ---- wrapped scalar optimisers: the callable they query is the evaluator's scalar bridge (call-site obligations) ------
contract("artap.algorithm_scipy:ScipyOpt.run", props=["C05"], options={"region": "minimize("},
         locals={}, ghost_params={"x0": "List[Real]"}, requires=["valid(self.evaluator) and valid(self.options)"], ensures=[],
         modifies=[], notes="region contract: only the call of scipy.optimize.minimize; the optimiser itself is external (4.8)")
contract("artap.algorithm_nlopt:NLopt._function", props=["C05"], options=_MUL,
         types={"x": "List[Real]", "grad": "List[Real]", "result": "Real"},
         requires=[r.replace("self.", "self.evaluator.") for r in
                   ["valid(self.algorithm) and valid(self.job) and self.algorithm.problem is self.job.problem"]] +
                  ["valid(self.evaluator)", "prob_wf(self.evaluator.job.problem)",
                   "self.evaluator.job.problem.ghost_ncosts >= 1", "len(self.evaluator.job.problem.signs) >= 1", "valid(x)"],
         ensures=["len(self.evaluator.algorithm.problem.individuals) == old(len(self.evaluator.algorithm.problem.individuals)) + 1",
                  "last_ind(self.evaluator).state == 2",
                  "result == self.evaluator.job.problem.signs[0] * round_dec(last_ind(self.evaluator).costs[0], last_ind(self.evaluator).features['precision'])"],
         raises={"RuntimeError": [], "OtherError": []},
         modifies=[m.replace("self.problem", "self.evaluator.job.problem") for m in _RUN_MOD], allocates=_ALLOC_IND)

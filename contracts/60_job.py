# ---- C05 / C06: evaluation of one design (Job.evaluate) and its helpers -----------------------------------------
_IND_FIELDS = ["self.id", "self.vector", "self.costs", "self.costs_signed", "self.state", "self.population_id",
               "self.algorithm_id", "self.parents", "self.children", "self.features", "self.custom"]
_ALLOC_IND = ["$list.Real", "$len.Real", "$list.Ref", "$len.Ref", "Features.start_time", "Features.finish_time",
              "Features.feasible", "Features.precision", "$owner"]
# ghost ownership: every design owns its vector / costs / costs_signed lists and its feature dict; two designs can therefore
# never share one of them (this replaces pairwise-distinctness quantifiers, which make E-matching explode)
define("owns", ["x"],
       "owner(x.vector) is x and owner(x.costs) is x and owner(x.costs_signed) is x and owner(x.features) is x and "
       "x.costs is not x.costs_signed and x.vector is not x.costs and x.vector is not x.costs_signed and "
       "valid(x.vector) and valid(x.costs) and valid(x.costs_signed) and valid(x.features)")
contract("Individual.add_features", abstract=True, params=["self"], props=["C05", "C06", "C09"],
         trusted="hook overridden by subclasses to add feature keys; no effect on the modelled fields",
         types={"self": "Ref[Individual]"}, ensures=[])
contract("artap.individual:Individual.__init__", props=["C05", "C06", "C09", "C14"],
         types={"vector": "Opt[List[Real]]"},
         ensures=["self.id == old(Individual.counter)", "Individual.counter == old(Individual.counter) + 1",
                  "self.state == 0", "self.population_id == -1", "len(self.costs) == 0", "len(self.costs_signed) == 0",
                  "fresh(self.vector)", "fresh(self.costs)", "fresh(self.costs_signed)", "fresh(self.features)",
                  "fresh(self.parents)", "fresh(self.children)", "len(self.parents) == 0", "len(self.children) == 0",
                  "self.costs is not self.costs_signed", "self.vector is not self.costs", "self.vector is not self.costs_signed",
                  "self.parents is not self.children",
                  "implies(is_none(vector), len(self.vector) == 0)",
                  "implies(not is_none(vector), seq_eq(self.vector, vector))",
                  "self.features['feasible'] == 0", "self.features['precision'] == 7", "self.ghost_evals == 0", "owns(self)"],
         ghost={"after:self.custom = {}": ["self.ghost_evals = 0", "set_owner(self.vector, self)", "set_owner(self.costs, self)",
                                           "set_owner(self.costs_signed, self)", "set_owner(self.features, self)"]},
         modifies=_IND_FIELDS + ["self.ghost_evals", "$cv.Individual.counter"], allocates=_ALLOC_IND)

define("signed_image", ["x", "signs"],
       "len(x.costs_signed) == (len(signs) if len(signs) < len(x.costs) else len(x.costs)) + 1 and "
       "forall(lambda i: x.costs_signed[i] == signs[i] * round_dec(x.costs[i], x.features['precision']), 0, len(x.costs_signed) - 1) and "
       "x.costs_signed[len(x.costs_signed) - 1] == (1 if x.features['feasible'] == 0 else 0)")
contract("artap.individual:Individual.calc_signed_costs", props=["C05"], options={"mul": "uninterpreted"},
         types={"p_signs": "List[Int]"},
         requires=["valid(self.features)", "valid(self.costs)", "valid(p_signs)", "valid(self.vector)"],
         ensures=["signed_image(self, p_signs)", "fresh(self.costs_signed)", "unchanged(self.costs)",
                  "owner(self.costs_signed) is self", "implies(old(owns(self)), owns(self))"],
         ghost={"after:self.costs_signed.append": ["set_owner(self.costs_signed, self)"]},
         modifies=["self.costs_signed"], allocates=["$list.Real", "$len.Real", "$owner"])

# ---- random designs inside the box (C06 re-roll, C08, C12) ----------------------------------------------------------
define("prec_eff", ["p"], "(p['precision'] if ('precision' in p and p['precision'] != 0) else 1e-12)")
define("coord_in_tol", ["x", "p"],
       "p['bounds'][0] - prec_eff(p) / 2 <= x and x <= p['bounds'][1] + prec_eff(p) / 2")
define("params_wf", ["ps"],
       "forall(lambda i: valid(ps[i]) and 'bounds' in ps[i] and valid(ps[i]['bounds']) and len(ps[i]['bounds']) >= 2 and "
       "ps[i]['bounds'][0] <= ps[i]['bounds'][1] and not ('parameter_type' in ps[i]) and "
       "implies('precision' in ps[i], ps[i]['precision'] >= 0), 0, len(ps))")
define("inbox_tol", ["v", "ps"],
       "len(v) == len(ps) and forall(lambda i: coord_in_tol(v[i], ps[i]), 0, len(ps))")

contract("artap.utils:VectorAndNumbers.gen_number", props=["C06", "C08", "C12"],
         types={"bounds": "Opt[List[Real]]", "precision": "Real", "distribution": "Str", "p_type": "Str", "result": "Real"},
         locals={"number": "Real", "bounds": "Opt[List[Real]]", "precision": "Real"},
         requires=["distribution == 'uniform'", "p_type == 'real'", "precision >= 0",
                   "implies(not is_none(bounds), len(bounds) >= 2 and bounds[0] <= bounds[1])"],
         ensures=["implies(not is_none(bounds), bounds[0] - (precision if precision != 0 else 1e-12) / 2 <= result and "
                  "result <= bounds[1] + (precision if precision != 0 else 1e-12) / 2)"],
         allocates=["$list.Real", "$len.Real"])

contract("artap.utils:VectorAndNumbers.gen_vector", props=["C06", "C08", "C12"],
         types={"design_parameters": "List[Ref[Parameter]]", "result": "List[Real]"},
         locals={"parameters_vector": "List[Real]", "bounds": "List[Real]", "precision": "Opt[Real]", "p_type": "Str"},
         requires=["params_wf(design_parameters)"],
         ensures=["fresh(result)", "inbox_tol(result, design_parameters)"],
         loops={1: ["len(parameters_vector) == _k", "fresh(parameters_vector)", "_k <= len(design_parameters)",
                    "forall(lambda i: coord_in_tol(parameters_vector[i], design_parameters[i]), 0, _k)",
                    "unchanged(design_parameters)",
                    "forall(lambda i: unchanged(design_parameters[i]['bounds']), 0, len(design_parameters))"]},
         allocates=["$list.Real", "$len.Real"])

# ---- abstract callees of Job.evaluate ------------------------------------------------------------------------------
_GHOST = ["self.problem.ghost_calls", "self.problem.ghost_last_arg", "self.problem.ghost_last_vec", "self.problem.ghost_last_ret",
          "self.problem.ghost_nontransient"]
# ghost_nontransient counts exceptions other than TimeoutError / RuntimeError raised by the objective (C06: they must propagate)
_NT_SAME = "self.problem.ghost_nontransient == old(self.problem.ghost_nontransient)"
_CALLED = ("implies(self.passthrough, self.problem.ghost_calls == old(self.problem.ghost_calls) + 1 and "
           "self.problem.ghost_last_arg is individual and self.problem.ghost_last_vec is individual.vector)")
contract("SurrogateModel.evaluate", abstract=True, params=["self", "individual"], props=["C05", "C06", "C09", "C14"],
         types={"self": "Ref[SurrogateModel]", "individual": "Ref[Individual]", "result": "List[Real]"},
         requires=["valid(self.problem)"],
         ensures=["fresh(result)", _CALLED, "implies(self.passthrough, seq_eq(result, self.problem.ghost_last_ret))", _NT_SAME,
                  "len(result) == self.problem.ghost_ncosts"],
         raises={"TimeoutError": [_CALLED, _NT_SAME], "RuntimeError": [_CALLED, _NT_SAME],
                 "OtherError": [_CALLED, "self.problem.ghost_nontransient == old(self.problem.ghost_nontransient) + 1"]},
         modifies=_GHOST + ["self.eval_counter", "self.predict_counter", "self.trained", "self.ghost_trains", "self.regressor",
                            "list(self.x_data)", "list(self.y_data)"],
         allocates=["$list.Real", "$len.Real"],
         notes="abstract surrogate: `passthrough` (ghost) is true for SurrogateModelEval, whose own contract (C19) gives exactly "
               "these clauses; for predicting surrogates only freshness of the result is used")
contract("Problem.evaluate_inequality_constraints", abstract=True, params=["self", "x"], props=["C05", "C06"],
         trusted="A2 user-supplied constraint function", types={"self": "Ref[Problem]", "x": "List[Real]", "result": "List[Real]"},
         ensures=["fresh(result)", "self.ghost_last_g is result", "self.ghost_last_g_vec is x"],
         modifies=["self.ghost_last_g", "self.ghost_last_g_vec"],
         allocates=["$list.Real", "$len.Real"])
contract("DataStore.sync_individual", abstract=True, params=["self", "individual"], props=["C05", "C06", "C09", "C10", "C11"],
         types={"self": "Ref[DataStore]", "individual": "Ref[Individual]"},
         trusted="store interface; DummyDataStore does nothing, SqliteDataStore.sync_individual is verified under C10/C11",
         # C11: a design is handed to the store only when its evaluation is complete (state EVALUATED, costs and signed costs set):
         # a row can therefore never hold costs that do not belong to its vector
         requires=["individual.state == 2", "valid(individual.costs)", "valid(individual.costs_signed)",
                   "len(individual.costs_signed) >= 1"],
         ensures=[])

define("job_wf", ["j", "x"],
       "valid(j.problem) and valid(j.problem.surrogate) and valid(j.problem.surrogate.problem) and "
       "j.problem.surrogate.problem is j.problem and valid(j.problem.failed) and valid(j.problem.parameters) and "
       "valid(j.problem.signs) and valid(j.problem.data_store) and params_wf(j.problem.parameters) and "
       "owns(x) and valid(j.problem.surrogate.x_data) and "
       "valid(j.problem.surrogate.y_data) and j.problem.surrogate.x_data is not j.problem.failed and "
       "j.problem.surrogate.y_data is not j.problem.failed and j.problem.surrogate.x_data is not j.problem.parameters and "
       "j.problem.surrogate.y_data is not j.problem.parameters and j.problem.failed is not j.problem.parameters")
define("n_failed", ["j"], "len(j.problem.failed) - old(len(j.problem.failed))")

contract("artap.job:Job.evaluate", props=["C05", "C06", "C09", "C11", "C14"], options={"mul": "uninterpreted"},
         types={"individual": "Ref[Individual]"},
         locals={"constraints": "List[Real]", "costs": "List[Real]", "eps": "Real", "failed_individual": "Ref[Individual]"},
         requires=["job_wf(self, individual)"],
         ensures=[
             # C05: an evaluated design is skipped: no objective call, nothing changes
             "implies(old(individual.state) == 2, self.problem.ghost_calls == old(self.problem.ghost_calls) and "
             "individual.state == 2 and individual.costs is old(individual.costs) and "
             "individual.costs_signed is old(individual.costs_signed) and individual.vector is old(individual.vector) and n_failed(self) == 0)",
             "implies(old(individual.state) != 2, individual.state == 2)",
             # C05: stored costs belong to the stored vector: they are what the objective returned on its last call,
             # and that call was made on this individual with the vector it still carries
             "implies(old(individual.state) != 2 and self.problem.surrogate.passthrough, "
             "seq_eq(individual.costs, self.problem.ghost_last_ret) and self.problem.ghost_last_arg is individual and "
             "self.problem.ghost_last_vec is individual.vector)",
             "implies(old(individual.state) != 2, signed_image(individual, self.problem.signs))",
             # C05: the feasibility marker: 0 exactly when constraints exist and every g is < 0, otherwise 1
             "implies(old(individual.state) != 2 and len(self.problem.ghost_last_g) > 0, "
             "(individual.costs_signed[len(individual.costs_signed) - 1] == 0) == "
             "forall(lambda i: self.problem.ghost_last_g[i] < 0, 0, len(self.problem.ghost_last_g)))",
             # ... and those constraint values were computed for the vector the design finally carries
             "implies(old(individual.state) != 2, self.problem.ghost_last_g_vec is individual.vector)",
             # C05/C06 accounting: f failed calls plus exactly one successful call, f <= 4
             "implies(old(individual.state) != 2, 0 <= n_failed(self) and n_failed(self) <= 4)",
             "implies(old(individual.state) != 2 and self.problem.surrogate.passthrough, "
             "self.problem.ghost_calls == old(self.problem.ghost_calls) + n_failed(self) + 1)",
             # C06: a re-rolled design lies inside the box (up to the rounding precision)
             "implies(n_failed(self) >= 1, inbox_tol(individual.vector, self.problem.parameters))",
             "implies(n_failed(self) == 0, individual.vector is old(individual.vector))",
             "forall(lambda t: self.problem.failed[t] is old(self.problem.failed[t]), 0, old(len(self.problem.failed)))",
             "forall(lambda t: self.problem.failed[t].state == 3, old(len(self.problem.failed)), len(self.problem.failed))",
             # C06: a normal return means no non-transient exception was swallowed
             _NT_SAME,
             # ghost per-design evaluation counter (C05: "exactly once per not-yet-evaluated design", used by the batch contracts)
             "individual.ghost_evals == old(individual.ghost_evals) + (0 if old(individual.state) == 2 else 1)",
             "implies(old(individual.state) != 2, len(individual.costs) == self.problem.ghost_ncosts)",
             "implies(old(individual.state) != 2, fresh(individual.costs) and fresh(individual.costs_signed) and "
             "individual.costs is not individual.costs_signed)",
             "owns(individual)",
         ],
         raises={
             # C06: five consecutive transient failures -> RuntimeError from the retry loop, five failed designs recorded
             "RuntimeError": ["n_failed(self) == 5", "individual.state != 2", _NT_SAME,
                              "individual.ghost_evals == old(individual.ghost_evals)",
                              "implies(self.problem.surrogate.passthrough, self.problem.ghost_calls == old(self.problem.ghost_calls) + 5)"],
             # C06: any other exception propagates at once and the design is not marked evaluated
             "OtherError": ["individual.state != 2", "0 <= n_failed(self) and n_failed(self) <= 4",
                            "individual.ghost_evals == old(individual.ghost_evals)",
                            "self.problem.ghost_nontransient == old(self.problem.ghost_nontransient) + 1",
                            "implies(self.problem.surrogate.passthrough, "
                            "self.problem.ghost_calls == old(self.problem.ghost_calls) + n_failed(self) + 1)"],
         },
         loops={1: ["old(individual.state) != 2", "individual.state != 2", "_k <= 5", _NT_SAME,
                    "individual.ghost_evals == old(individual.ghost_evals)",
                    "len(self.problem.failed) == old(len(self.problem.failed)) + _k",
                    "implies(self.problem.surrogate.passthrough, self.problem.ghost_calls == old(self.problem.ghost_calls) + _k)",
                    "implies(_k >= 1, inbox_tol(individual.vector, self.problem.parameters))",
                    "implies(_k == 0, individual.vector is old(individual.vector))",
                    "job_wf(self, individual)", "unchanged(self.problem.parameters)", "unchanged(self.problem.signs)",
                    "forall(lambda i: unchanged(self.problem.parameters[i]['bounds']), 0, len(self.problem.parameters))",
                    "forall(lambda t: self.problem.failed[t] is old(self.problem.failed[t]), 0, old(len(self.problem.failed)))",
                    "forall(lambda t: self.problem.failed[t].state == 3 and valid(self.problem.failed[t]) and fresh(self.problem.failed[t]), old(len(self.problem.failed)), len(self.problem.failed))",
                    ]},
         ghost={"after:individual.state = individual.State.EVALUATED": ["individual.ghost_evals = individual.ghost_evals + 1"],
                "after:individual.costs = costs": ["set_owner(individual.costs, individual)"],
                "after:individual.vector = VectorAndNumbers.gen_vector": ["set_owner(individual.vector, individual)"],
                "after:self.problem.failed.append(failed_individual)": [
             # C06: the design recorded as failed carries the vector whose evaluation has just failed
             "assert implies(self.problem.surrogate.passthrough, seq_eq(failed_individual.vector, self.problem.ghost_last_vec)) and failed_individual.state == 3"]},
         modifies=["individual.state", "individual.costs", "individual.costs_signed", "individual.vector", "individual.ghost_evals",
                   "individual.features.start_time", "individual.features.finish_time", "individual.features.feasible",
                   "list(self.problem.failed)", "self.problem.ghost_last_g", "self.problem.ghost_last_g_vec"] + ["self.problem.ghost_calls", "self.problem.ghost_last_arg",
                                                   "self.problem.ghost_last_vec", "self.problem.ghost_last_ret",
                                                   "self.problem.ghost_nontransient"] +
                  ["self.problem.surrogate." + f for f in ("eval_counter", "predict_counter", "trained", "ghost_trains", "regressor")] +
                  ["list(self.problem.surrogate.x_data)", "list(self.problem.surrogate.y_data)", "$cv.Individual.counter"],
         allocates=_ALLOC_IND)

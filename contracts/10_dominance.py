# ---- C01: constrained Pareto dominance ---------------------------------------------------------------
# spec taken from the property statement: feasibility marker first, then textbook Pareto dominance on the
# m = len-1 signed objectives.
define("dom", ["p", "q", "m"],
       "forall(lambda i: p[i] <= q[i], 0, m) and exists(lambda i: p[i] < q[i], 0, m)")
define("feas_better", ["a", "b"], "a != b and (a == 0 or (b != 0 and abs(a) < abs(b)))")
define("pareto_spec", ["p", "q"],
       "ite(feas_better(p[len(p)-1], q[len(q)-1]), 1, ite(feas_better(q[len(q)-1], p[len(p)-1]), 2, "
       "ite(dom(p, q, len(p)-1), 1, ite(dom(q, p, len(p)-1), 2, 0))))")

contract("artap.operators:ParetoDominance.compare",
         props=["C01", "C02", "C03", "C04", "C09", "C18"],
         types={"p": "List[Real]", "q": "List[Real]", "result": "Int"},
         requires=["len(p) == len(q)", "len(p) >= 2"],
         ensures=["result == pareto_spec(p, q)"],
         loops={1: ["dominate_p == exists(lambda i: q[i] > p[i], 0, _k)",
                    "dominate_q == exists(lambda i: p[i] > q[i], 0, _k)",
                    "not (dominate_p and dominate_q)"]},
         # comparison-only code: exact for finite floats, so the run-time twin compares exactly too (no rounding tolerance)
         options={"exact_floats": True},
         pure=True, returns="pareto_spec(p, q)")

_three = [("p", "List[Real]"), ("q", "List[Real]"), ("r", "List[Real]")]
_len2 = ["len(p) == len(q)", "len(p) >= 2"]
_len3 = _len2 + ["len(q) == len(r)"]
lemma("pareto_range", props=["C01"], vars=_three[:2], hyps=_len2,
      goal="pareto_spec(p, q) == 0 or pareto_spec(p, q) == 1 or pareto_spec(p, q) == 2")
lemma("pareto_irreflexive", props=["C01"], vars=_three[:1], hyps=["len(p) >= 2"], goal="pareto_spec(p, p) == 0")
lemma("pareto_equal_vectors", props=["C01"], vars=_three[:2], hyps=_len2 + ["seq_eq(p, q)"], goal="pareto_spec(p, q) == 0")
lemma("pareto_antisymmetric", props=["C01"], vars=_three[:2], hyps=_len2,
      goal=["(pareto_spec(p, q) == 1) == (pareto_spec(q, p) == 2)",
            "(pareto_spec(p, q) == 2) == (pareto_spec(q, p) == 1)",
            "(pareto_spec(p, q) == 0) == (pareto_spec(q, p) == 0)"])
lemma("pareto_transitive", props=["C01"], vars=_three, hyps=_len3 + ["pareto_spec(p, q) == 1", "pareto_spec(q, r) == 1"],
      goal="pareto_spec(p, r) == 1")
lemma("pareto_feasibility_first", props=["C01", "C05"], vars=_three[:2],
      hyps=_len2 + ["p[len(p)-1] == 0", "q[len(q)-1] != 0"], goal="pareto_spec(p, q) == 1")
lemma("pareto_neither_iff", props=["C01"], vars=_three[:2], hyps=_len2 + ["p[len(p)-1] == q[len(q)-1]"],
      goal="(pareto_spec(p, q) == 0) == (not dom(p, q, len(p)-1) and not dom(q, p, len(p)-1))")

# ---- C01: epsilon comparator --------------------------------------------------------------------------
# Float division is kept uninterpreted (fdiv): the only facts used are functionality and, for the pairs the
# property quantifies over ("differ by more than rounding error"), that scaling keeps strict order.
define("eps_at", ["s", "i"], "s.epsilons[i % len(s.epsilons)]")
define("separated", ["s", "p", "q", "m"],
       "forall(lambda i: implies(p[i] < q[i], fdiv(p[i], eps_at(s, i)) < fdiv(q[i], eps_at(s, i))) and "
       "implies(q[i] < p[i], fdiv(q[i], eps_at(s, i)) < fdiv(p[i], eps_at(s, i))), 0, m)")
define("same_objs", ["p", "q", "m"], "forall(lambda i: p[i] == q[i], 0, m)")
define("eps_spec", ["p", "q"],
       "ite(feas_better(p[len(p)-1], q[len(q)-1]), 1, ite(feas_better(q[len(q)-1], p[len(p)-1]), 2, "
       "ite(dom(p, q, len(p)-1), 1, ite(dom(q, p, len(p)-1), 2, ite(same_objs(p, q, len(p)-1), 2, 0)))))")

contract("artap.operators:EpsilonDominance.compare",
         props=["C01", "C04", "C18"],
         options={"float_div": "uninterpreted"},
         types={"p": "List[Real]", "q": "List[Real]", "result": "Int"},
         requires=["len(p) == len(q)", "len(p) >= 2", "len(self.epsilons) >= 1",
                   "forall(lambda i: self.epsilons[i] > 0, 0, len(self.epsilons))",
                   "separated(self, p, q, len(p)-1)"],
         ensures=["result == eps_spec(p, q)"],
         loops={1: ["dominate_p == exists(lambda i: q[i] > p[i], 0, _k)",
                    "dominate_q == exists(lambda i: p[i] > q[i], 0, _k)",
                    "not (dominate_p and dominate_q)"],
                2: ["dist1 == dist2"]},
         locals={"dist1": "Real", "dist2": "Real"},
         pure=True, returns="eps_spec(p, q)")

# what the property says about the epsilon comparator, as lemmas over its postcondition
lemma("eps_agrees_with_pareto", props=["C01"], vars=_three[:2], hyps=_len2 + ["not same_objs(p, q, len(p)-1)"],
      goal="eps_spec(p, q) == pareto_spec(p, q)")
lemma("eps_names_a_loser_for_identical", props=["C01", "C04"], vars=_three[:2], hyps=_len2 + ["seq_eq(p, q)"],
      goal="eps_spec(p, q) == 2")
lemma("eps_never_zero_on_equal_objectives", props=["C01", "C04"], vars=_three[:2],
      hyps=_len2 + ["same_objs(p, q, len(p)-1)"], goal="eps_spec(p, q) != 0")

# ---- C14: worst-case and gradient evaluators ---------------------------------------------------------------------------
define("idle", ["e"], "len(e.individuals) == 0 and len(e.to_evaluate) == 0")
define("shifted", ["c", "x", "i", "d"],
       "len(c.vector) == len(x.vector) and forall(lambda t: c.vector[t] == (x.vector[t] + d if t == i else x.vector[t]), 0, len(x.vector))")
define("wc_child", ["x", "ps", "j"],
       "valid(x.children[j]) and fresh(x.children[j]) and x.children[j].state == 0 and x.children[j].ghost_evals == 0 and "
       "owns(x.children[j]) and fresh(x.children[j].vector) and "
       "shifted(x.children[j], x, j // 2, (ps[j // 2]['tol'] if j % 2 == 1 else -ps[j // 2]['tol']))")
define("wc_lists_wf", ["e"],
       "valid(e.individuals) and valid(e.to_evaluate) and e.individuals is not e.to_evaluate and valid(e.algorithm) and "
       "valid(e.algorithm.problem) and valid(e.algorithm.problem.parameters) and "
       "e.algorithm.problem.parameters is not e.individuals and e.algorithm.problem.parameters is not e.to_evaluate and "
       "forall(lambda p: valid(e.algorithm.problem.parameters[p]) and 'tol' in e.algorithm.problem.parameters[p], 0, "
       "len(e.algorithm.problem.parameters))")

contract("artap.operators:WorstCaseEvaluator.add", props=["C14"],
         types={"individual": "Ref[Individual]"},
         locals={"vector": "List[Real]"},
         requires=["wc_lists_wf(self)", "valid(individual.vector)", "len(individual.vector) <= len(self.algorithm.problem.parameters)",
                   "individual.children is not self.individuals and individual.children is not self.to_evaluate"],
         ensures=["len(individual.children) == 2 * len(individual.vector)", "fresh(individual.children)",
                  "forall(lambda j: wc_child(individual, self.algorithm.problem.parameters, j), 0, len(individual.children))",
                  "forall(lambda j, l: implies(j != l, individual.children[j] is not individual.children[l]), "
                  "(0, len(individual.children)), (0, len(individual.children)))",
                  "len(self.individuals) == old(len(self.individuals)) + 1 and self.individuals[len(self.individuals) - 1] is individual",
                  "forall(lambda t: self.individuals[t] is old(self.individuals[t]), 0, old(len(self.individuals)))",
                  "len(self.to_evaluate) == old(len(self.to_evaluate)) + 1 + len(individual.children)",
                  "self.to_evaluate[old(len(self.to_evaluate))] is individual",
                  "forall(lambda j: self.to_evaluate[old(len(self.to_evaluate)) + 1 + j] is individual.children[j], 0, len(individual.children))",
                  "forall(lambda t: self.to_evaluate[t] is old(self.to_evaluate[t]), 0, old(len(self.to_evaluate)))",
                  "unchanged(individual.vector)"],
         loops={1: ["_k <= len(individual.vector)", "len(individual.children) == 2 * _k", "fresh(individual.children)",
                    "individual.children is not self.individuals and individual.children is not self.to_evaluate",
                    "forall(lambda j: wc_child(individual, self.algorithm.problem.parameters, j), 0, 2 * _k)",
                    "forall(lambda j, l: implies(j != l, individual.children[j] is not individual.children[l]), (0, 2 * _k), (0, 2 * _k))",
                    "unchanged(individual.vector)", "unchanged(self.algorithm.problem.parameters)",
                    "len(self.individuals) == old(len(self.individuals)) + 1 and self.individuals[len(self.individuals) - 1] is individual",
                    "forall(lambda t: self.individuals[t] is old(self.individuals[t]), 0, old(len(self.individuals)))",
                    "unchanged(self.to_evaluate)"]},
         modifies=["individual.children", "list(self.individuals)", "list(self.to_evaluate)", "$cv.Individual.counter"],
         allocates=_ALLOC_IND)

# sensitivity of one design: sum over its neighbour designs of |f0(x) - f0(neighbour)|
define("sens_of", ["x"], "seqsum([abs(x.costs[0] - c.costs[0]) for c in x.children])")
define("in_list", ["x", "L"], "exists(lambda t: L[t] is x, 0, len(L))")
define("wc_ready", ["e"],
       # every pending parent is evaluated with m costs; its neighbours are new, queued designs; parents are pairwise distinct
       # and are nobody's neighbour
       "forall(lambda j: valid(e.individuals[j]) and e.individuals[j].state == 2 and in_list(e.individuals[j], e.to_evaluate) and "
       "len(e.individuals[j].costs) == e.job.problem.ghost_ncosts and "
       "len(e.individuals[j].costs_signed) == e.job.problem.ghost_ncosts + 1 and valid(e.individuals[j].costs_signed) and "
       "valid(e.individuals[j].children) and valid(e.individuals[j].features) and "
       "e.individuals[j].children is not e.job.problem.failed and e.individuals[j].children is not e.job.problem.surrogate.x_data and "
       "e.individuals[j].children is not e.job.problem.surrogate.y_data and "
       "forall(lambda c: valid(e.individuals[j].children[c]) and e.individuals[j].children[c].state == 0 and "
       "in_list(e.individuals[j].children[c], e.to_evaluate), 0, len(e.individuals[j].children)), 0, len(e.individuals)) and "
       "forall(lambda j, l: implies(j != l, e.individuals[j] is not e.individuals[l]), "
       "(0, len(e.individuals)), (0, len(e.individuals)))")
define("wc_done", ["x", "m"],
       "len(x.costs) == m + 1 and x.costs[m] == sens_of(x) and "
       "len(x.costs_signed) == m + 2 and x.costs_signed[m] == sens_of(x) and x.costs_signed[m + 1] == old(x.costs_signed[m]) and "
       "x.features['sensitivity'] == sens_of(x)")
define("wc_done_b", ["x", "m"],
       "len(x.costs) == m + 1 and x.costs[m] == sens_of(x) and "
       "len(x.costs_signed) == m + 2 and x.costs_signed[m] == sens_of(x) and x.costs_signed[m + 1] == before(x.costs_signed[m], 1) and "
       "x.features['sensitivity'] == sens_of(x)")
define("wc_pending", ["e", "k", "m"],
       # parents not yet post-processed still have their m costs (+ marker), untouched since the loop started
       "forall(lambda j: stable(e.individuals[j].costs, 1) and stable(e.individuals[j].costs_signed, 1) and "
       "len(e.individuals[j].costs) == m and len(e.individuals[j].costs_signed) == m + 1, k, len(e.individuals))")
define("wc_children_same", ["e", "m"],
       "forall(lambda j: forall(lambda c: stable(e.individuals[j].children[c].costs, 1) and "
       "len(e.individuals[j].children[c].costs) == m, 0, len(e.individuals[j].children)), 0, len(e.individuals))")
_WC_INV = ["wc_pending(self, %s, self.job.problem.ghost_ncosts)", "wc_children_same(self, self.job.problem.ghost_ncosts)",
           "forall(lambda j: wc_done_b(self.individuals[j], self.job.problem.ghost_ncosts), 0, %s)"]

# run() is verified in two sequential steps (region contracts): the assertion between them (wc_evaluated) is the ensures of
# step 1 and the requires of step 2, so the two proofs compose by the sequencing rule.
define("wc_evaluated", ["e"],
       "wc_lists_wf(e) and valid(e.job) and valid(e.job.problem) and e.job.problem.ghost_ncosts >= 1 and "
       "e.n == e.job.problem.ghost_ncosts + 1 and "
       "forall(lambda j: valid(e.individuals[j]) and owns(e.individuals[j]) and "
       "len(e.individuals[j].costs) == e.job.problem.ghost_ncosts and "
       "len(e.individuals[j].costs_signed) == e.job.problem.ghost_ncosts + 1 and valid(e.individuals[j].children) and "
       "forall(lambda c: valid(e.individuals[j].children[c]) and owns(e.individuals[j].children[c]) and "
       "e.individuals[j].children[c] is not e.individuals[j] and "
       "len(e.individuals[j].children[c].costs) == e.job.problem.ghost_ncosts, 0, len(e.individuals[j].children)), "
       "0, len(e.individuals)) and "
       "forall(lambda j, l: forall(lambda c: e.individuals[l].children[c] is not e.individuals[j], 0, len(e.individuals[l].children)), "
       "(0, len(e.individuals)), (0, len(e.individuals))) and "
       "forall(lambda j, l: implies(j != l, e.individuals[j] is not e.individuals[l]), (0, len(e.individuals)), (0, len(e.individuals)))")
_WC_PARENTS_SAME = ("forall(lambda j: unchanged(self.individuals[j].costs) and unchanged(self.individuals[j].costs_signed) and "
                    "self.individuals[j].costs is old(self.individuals[j].costs) and "
                    "self.individuals[j].costs_signed is old(self.individuals[j].costs_signed), 0, len(self.individuals))")

contract("artap.operators:WorstCaseEvaluator.run#1-evaluate", props=["C14"],
         options={"mul": "uninterpreted", "region": "super().evaluate(self.to_evaluate)",
                  "skip_ensures": {"Evaluator.evaluate": ["signed_image", "ghost_evals"]}},
         requires=["wc_lists_wf(self)", "wc_ready(self)", "batch_wf(self, self.to_evaluate)",
                   "valid(self.algorithm.options) and self.algorithm.options['max_processes'] <= 1",
                   "self.job.problem.ghost_ncosts >= 1", "self.n == self.job.problem.ghost_ncosts + 1",
                   "self.algorithm.problem is self.job.problem", "prob_wf(self.job.problem)",
                   "self.to_evaluate is not self.job.problem.failed and self.individuals is not self.job.problem.failed and "
                   "self.individuals is not self.job.problem.surrogate.x_data and self.individuals is not self.job.problem.surrogate.y_data",
                   "forall(lambda j, l: forall(lambda c: self.individuals[l].children[c] is not self.individuals[j], 0, "
                   "len(self.individuals[l].children)), (0, len(self.individuals)), (0, len(self.individuals)))"],
         ensures=["wc_evaluated(self)", "unchanged(self.individuals)", _WC_PARENTS_SAME],
         raises={"RuntimeError": [], "OtherError": []},
         modifies=[m.replace("individuals", "self.to_evaluate") if "each(" in m else m for m in _B_MOD],
         allocates=_ALLOC_IND)

contract("artap.operators:WorstCaseEvaluator.run#2-postprocess", props=["C14"],
         options={"mul": "uninterpreted", "region": "from:for individual in self.individuals"},
         locals={"sensitivity": "List[Real]"},
         requires=["wc_evaluated(self)"],
         ensures=["idle(self)",
                  "forall(lambda j: wc_done(old(self.individuals[j]), self.job.problem.ghost_ncosts), 0, old(len(self.individuals)))"],
         loops={1: ["_k <= len(self.individuals)"] + [t % "_k" if "%s" in t else t for t in _WC_INV],
                2: ["_k1 < len(self.individuals)", "individual is self.individuals[_k1]", "_k2 <= len(individual.children)"] +
                   [t % "_k1" if "%s" in t else t for t in _WC_INV] +
                   ["len(sensitivity) == _k2", "fresh(sensitivity)",
                    "forall(lambda t: sensitivity[t] == abs(individual.costs[0] - individual.children[t].costs[0]), 0, _k2)"]},
         # the frame of this step is stated coarsely (whole arrays): membership-based frames ("only lists of pending designs")
         # make E-matching diverge here; what stays unchanged is carried by the loop invariants instead
         modifies=["self.individuals", "self.to_evaluate", "Features.sensitivity", "$list.Real", "$len.Real"],
         allocates=["$list.Real", "$len.Real", "$list.Ref", "$len.Ref"])

contract("artap.operators:WorstCaseEvaluator.run", props=["C14"],
         trusted="composition of the verified steps run#1-evaluate and run#2-postprocess by the sequencing rule: the ensures of "
                 "step 1 (wc_evaluated, parents' cost lists unchanged) is the requires of step 2",
         types={}, requires=[], ensures=["idle(self)"], modifies=[])

# ---- gradient evaluator -------------------------------------------------------------------------------------------------
define("gr_child", ["x", "d", "j"],
       "valid(x.children[j]) and fresh(x.children[j]) and x.children[j].state == 0 and x.children[j].ghost_evals == 0 and "
       "owns(x.children[j]) and fresh(x.children[j].vector) and shifted(x.children[j], x, j, d)")
define("gr_lists_wf", ["e"],
       "valid(e.individuals) and valid(e.to_evaluate) and e.individuals is not e.to_evaluate")
contract("artap.operators:GradientEvaluator.add", props=["C14"],
         types={"individual": "Ref[Individual]"}, locals={"vector": "List[Real]"},
         requires=["gr_lists_wf(self)", "valid(individual.vector)",
                   "individual.children is not self.individuals and individual.children is not self.to_evaluate"],
         ensures=["len(individual.children) == len(individual.vector)", "fresh(individual.children)",
                  "forall(lambda j: gr_child(individual, self.delta, j), 0, len(individual.children))",
                  "forall(lambda j, l: implies(j != l, individual.children[j] is not individual.children[l]), "
                  "(0, len(individual.children)), (0, len(individual.children)))",
                  "len(self.individuals) == old(len(self.individuals)) + 1 and self.individuals[len(self.individuals) - 1] is individual",
                  "forall(lambda t: self.individuals[t] is old(self.individuals[t]), 0, old(len(self.individuals)))",
                  "len(self.to_evaluate) == old(len(self.to_evaluate)) + 1 + len(individual.children)",
                  "self.to_evaluate[old(len(self.to_evaluate))] is individual",
                  "forall(lambda j: self.to_evaluate[old(len(self.to_evaluate)) + 1 + j] is individual.children[j], 0, len(individual.children))",
                  "forall(lambda t: self.to_evaluate[t] is old(self.to_evaluate[t]), 0, old(len(self.to_evaluate)))",
                  "unchanged(individual.vector)"],
         loops={1: ["_k <= len(individual.vector)", "len(individual.children) == _k", "fresh(individual.children)",
                    "individual.children is not self.individuals and individual.children is not self.to_evaluate",
                    "forall(lambda j: gr_child(individual, self.delta, j), 0, _k)",
                    "forall(lambda j, l: implies(j != l, individual.children[j] is not individual.children[l]), (0, _k), (0, _k))",
                    "unchanged(individual.vector)",
                    "len(self.individuals) == old(len(self.individuals)) + 1 and self.individuals[len(self.individuals) - 1] is individual",
                    "forall(lambda t: self.individuals[t] is old(self.individuals[t]), 0, old(len(self.individuals)))",
                    "unchanged(self.to_evaluate)"]},
         modifies=["individual.children", "list(self.individuals)", "list(self.to_evaluate)", "$cv.Individual.counter"],
         allocates=_ALLOC_IND)

define("gr_evaluated", ["e", "n"],
       "gr_lists_wf(e) and n >= 0 and e.delta != 0 and "
       "forall(lambda j: valid(e.individuals[j]) and owns(e.individuals[j]) and valid(e.individuals[j].features) and "
       "len(e.individuals[j].costs) >= 1 and valid(e.individuals[j].children) and len(e.individuals[j].children) <= n and "
       "forall(lambda c: valid(e.individuals[j].children[c]) and owns(e.individuals[j].children[c]) and "
       "len(e.individuals[j].children[c].costs) >= 1, 0, len(e.individuals[j].children)), 0, len(e.individuals)) and "
       "forall(lambda j, l: implies(j != l, e.individuals[j] is not e.individuals[l]), (0, len(e.individuals)), (0, len(e.individuals)))")
define("gr_done", ["x", "d", "n"],
       "valid(x.features['gradient']) and len(x.features['gradient']) == n and "
       "forall(lambda i: x.features['gradient'][i] == (x.children[i].costs[0] - x.costs[0]) / d, 0, len(x.children))")
contract("artap.operators:GradientEvaluator.run#2-postprocess", props=["C14"],
         options={"region": "from:for individual in self.individuals"},
         ghost_params={"n_params": "Int"}, locals={"gradient": "List[Real]", "i": "Int"},
         requires=["gr_evaluated(self, n_params)"],
         ensures=["idle(self)",
                  "forall(lambda j: gr_done(old(self.individuals[j]), self.delta, n_params), 0, old(len(self.individuals)))"],
         loops={1: ["_k <= len(self.individuals)",
                    "forall(lambda j: gr_done(self.individuals[j], self.delta, n_params), 0, _k)",
                    "forall(lambda j: stable(self.individuals[j].costs, 1) and "
                    "forall(lambda c: stable(self.individuals[j].children[c].costs, 1), 0, len(self.individuals[j].children)), "
                    "0, len(self.individuals))"],
                2: ["_k1 < len(self.individuals)", "individual is self.individuals[_k1]", "_k2 <= len(individual.children)", "i == _k2",
                    "forall(lambda j: gr_done(self.individuals[j], self.delta, n_params), 0, _k1)",
                    "forall(lambda j: stable(self.individuals[j].costs, 1) and "
                    "forall(lambda c: stable(self.individuals[j].children[c].costs, 1), 0, len(self.individuals[j].children)), "
                    "0, len(self.individuals))",
                    "fresh(gradient) and len(gradient) == n_params",
                    "forall(lambda t: gradient[t] == (individual.children[t].costs[0] - individual.costs[0]) / self.delta, 0, _k2)"]},
         modifies=["self.individuals", "self.to_evaluate", "Features.gradient", "$list.Real", "$len.Real"],
         allocates=["$list.Real", "$len.Real", "$list.Ref", "$len.Ref"])

# Orchestration (evaluate = base evaluation + add for each design + run) is NOT verified deductively: establishing run's
# precondition (wc_ready / batch_wf over the queued parents and neighbours) from add's postconditions was not discharged.
# The clauses below are evaluated at run time on the real code over generated multi-batch histories (bounded, never counted).
define("wc_result", ["x", "m", "n"],
       "len(x.children) == 2 * n and len(x.costs) == m + 1 and len(x.costs_signed) == m + 2 and "
       "abs(x.costs[m] - sens_of(x)) <= 1e-9 * (1 + abs(x.costs[m])) and x.costs_signed[m] == x.costs[m] and x.state == 2")
contract("artap.operators:WorstCaseEvaluator.evaluate", props=["C14"], options={"bounded_only": True},
         types={"individuals": "List[Ref[Individual]]"},
         requires=["idle(self)"],
         ensures=["idle(self)",
                  "forall(lambda i: wc_result(individuals[i], self.n - 1, len(individuals[i].vector)), 0, len(individuals))",
                  # the neighbours sit at exactly -tol / +tol along each axis (also for designs on or near a bound)
                  "forall(lambda i: forall(lambda j: shifted(individuals[i].children[j], individuals[i], j // 2, "
                  "(self.algorithm.problem.parameters[j // 2]['tol'] if j % 2 == 1 else -self.algorithm.problem.parameters[j // 2]['tol'])), "
                  "0, len(individuals[i].children)), 0, len(individuals))",
                  # 1 + 2n objective evaluations per design of the batch
                  "self.algorithm.problem.ghost_calls == old(self.algorithm.problem.ghost_calls) + "
                  "sum([1 + 2 * len(x.vector) for x in individuals])",
                  # designs of earlier batches keep their cost vectors (history of batches is in the scenario)
                  "forall(lambda i: len(self.ghost_history[i].costs) == self.n and "
                  "list(self.ghost_history[i].costs) == list(old(self.ghost_history[i].costs)), 0, len(self.ghost_history))"])
contract("artap.operators:GradientEvaluator.evaluate", props=["C14"], options={"bounded_only": True},
         types={"individuals": "List[Ref[Individual]]"},
         requires=["idle(self)"],
         ensures=["idle(self)",
                  "forall(lambda i: forall(lambda k: shifted(individuals[i].children[k], individuals[i], k, self.delta), "
                  "0, len(individuals[i].children)), 0, len(individuals))",
                  "forall(lambda i: len(individuals[i].children) == len(individuals[i].vector) and "
                  "len(individuals[i].features['gradient']) == len(individuals[i].vector) and "
                  "forall(lambda k: abs(individuals[i].features['gradient'][k] - "
                  "(individuals[i].children[k].costs[0] - individuals[i].costs[0]) / self.delta) <= 1e-9, 0, len(individuals[i].vector)), "
                  "0, len(individuals))",
                  "self.algorithm.problem.ghost_calls == old(self.algorithm.problem.ghost_calls) + "
                  "sum([1 + len(x.vector) for x in individuals])"])

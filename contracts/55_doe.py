# ---- C12: space-filling samplers ------------------------------------------------------------------------------------------
# radical inverse of i in base b:  phi_b(i) = sum_k d_k b^(-k-1)  with i = sum_k d_k b^k;  recursively (d_0 + phi_b(i div b)) / b
declare_fun("radinv", [("i", "Int"), ("b", "Int")], "Real", by_value=True,
            definition="(0.0 if i <= 0 else ((i % b) + radinv(i // b, b)) / b)")
lemma("radinv_step", props=["C12"], vars=[("n", "Real"), ("r", "Real"), ("R", "Real"), ("d", "Real"), ("b", "Real")],
      hyps=["d > 0", "b > 0"], goal="n + r / (d * b) + R / (d * b) == n + ((r + R) / b) / d")
contract("artap.doe:_van_der_corput", props=["C12"],
         types={"n_sample": "Int", "base": "Int", "result": "List[Real]"},
         locals={"sequence": "List[Real]", "n_th_number": "Real", "denom": "Real", "remainder": "Int", "i": "Int"},
         requires=["base >= 2", "n_sample >= 0"],
         ensures=["fresh(result)", "len(result) == n_sample",
                  # the i-th element is the radical inverse of i in the given base
                  "forall(lambda t: result[t] == radinv(t, base), 0, n_sample)"],
         loops={1: ["len(sequence) == _k", "fresh(sequence)", "_k <= n_sample",
                    "forall(lambda t: sequence[t] == radinv(t, base), 0, _k)"],
                2: ["i >= 0", "denom > 0", "len(sequence) == _k1", "fresh(sequence)", "_k1 < n_sample",
                    "forall(lambda t: sequence[t] == radinv(t, base), 0, _k1)",
                    "n_th_number + radinv(i, base) / denom == radinv(_k1, base)"]},
         ghost={"after:i, remainder = divmod(i, base)": ["unfold radinv(i * base + remainder, base)"],
                "after:n_th_number += remainder / denom": [
                    "use radinv_step(n_th_number - remainder / denom, remainder, radinv(i, base), denom / base, base)"],
                "before:sequence.append(n_th_number)": ["unfold radinv(i, base)"]},
         options={"check_div": True}, allocates=["$list.Real", "$len.Real"])

# affine map of unit samples to the bounds (used by LHS, Halton, random-k-means, ... builders)
contract("artap.doe:construct_df_from_random_matrix", props=["C12", "C08"],
         types={"x": "List[List[Real]]", "factor_lists": "List[List[Real]]", "result": "List[List[Real]]"},
         locals={"out": "List[List[Real]]", "row": "List[Real]", "w": "List[Real]"},
         requires=["forall(lambda r: valid(x[r]) and len(x[r]) <= len(factor_lists), 0, len(x))",
                   "forall(lambda c: valid(factor_lists[c]) and len(factor_lists[c]) >= 2, 0, len(factor_lists))"],
         ensures=["fresh(result)", "len(result) == len(x)",
                  "forall(lambda r: valid(result[r]) and fresh(result[r]) and len(result[r]) == len(x[r]), 0, len(x))",
                  "forall(lambda r, c: implies(c < len(x[r]), result[r][c] == factor_lists[c][0] + "
                  "x[r][c] * abs(factor_lists[c][1] - factor_lists[c][0])), (0, len(x)), (0, len(factor_lists)))",
                  # unit samples land inside the bounds
                  "forall(lambda r, c: implies(c < len(x[r]) and 0 <= x[r][c] and x[r][c] <= 1 and factor_lists[c][0] <= factor_lists[c][1], "
                  "factor_lists[c][0] <= result[r][c] and result[r][c] <= factor_lists[c][1]), (0, len(x)), (0, len(factor_lists)))"],
         loops={1: ["len(out) == _k", "fresh(out)", "_k <= len(x)", "unchanged(x)", "unchanged(factor_lists)",
                    "forall(lambda r: unchanged(x[r]), 0, len(x))", "forall(lambda c: unchanged(factor_lists[c]), 0, len(factor_lists))",
                    "forall(lambda r: valid(out[r]) and fresh(out[r]) and len(out[r]) == len(x[r]), 0, _k)",
                    "forall(lambda r, c: implies(c < len(x[r]), out[r][c] == factor_lists[c][0] + "
                    "x[r][c] * abs(factor_lists[c][1] - factor_lists[c][0])), (0, _k), (0, len(factor_lists)))"],
                2: ["len(out) == _k1", "fresh(out)", "_k1 < len(x)", "w is x[_k1]", "unchanged(x)", "unchanged(factor_lists)",
                    "forall(lambda r: unchanged(x[r]), 0, len(x))", "forall(lambda c: unchanged(factor_lists[c]), 0, len(factor_lists))",
                    "fresh(row)", "len(row) == _k2", "_k2 <= len(w)", "row is not out",
                    "forall(lambda r: valid(out[r]) and fresh(out[r]) and len(out[r]) == len(x[r]) and out[r] is not row, 0, _k1)",
                    "forall(lambda r, c: implies(c < len(x[r]), out[r][c] == factor_lists[c][0] + "
                    "x[r][c] * abs(factor_lists[c][1] - factor_lists[c][0])), (0, _k1), (0, len(factor_lists)))",
                    "forall(lambda c: row[c] == factor_lists[c][0] + w[c] * abs(factor_lists[c][1] - factor_lists[c][0]), 0, _k2)"]},
         allocates=["$list.Real", "$len.Real", "$list.Ref", "$len.Ref"],
         notes="a numpy 2-D array iterates as its rows (x: List[List[Real]]); np.fabs is |.| over the reals")

# random generator: exactly the requested number of in-bounds designs
contract("artap.operators:RandomGenerator.generate", props=["C12", "C08", "C09"],
         types={"result": "List[List[Real]]"}, locals={"vectors": "List[List[Real]]", "vector": "List[Real]"},
         requires=["params_wf(self.parameters)", "valid(self.parameters)", "self.number >= 0"],
         ensures=["fresh(result)", "len(result) == self.number",
                  "forall(lambda i: valid(result[i]) and fresh(result[i]) and inbox_tol(result[i], self.parameters), 0, len(result))"],
         loops={1: ["fresh(vectors)", "len(vectors) == _k", "_k <= self.number", "unchanged(self.parameters)",
                    "forall(lambda i: unchanged(self.parameters[i]['bounds']), 0, len(self.parameters))",
                    "forall(lambda i: valid(vectors[i]) and fresh(vectors[i]) and inbox_tol(vectors[i], self.parameters), 0, _k)"]},
         allocates=["$list.Real", "$len.Real", "$list.Ref", "$len.Ref"])

# uniform generator: k equally spaced levels per parameter from the lower to the upper bound (the level lists are verified;
# the full grid is itertools.product of these lists: library, bounded run-time check)
define("level", ["p", "i", "k"], "p['bounds'][0] + i * ((p['bounds'][1] - p['bounds'][0]) / (k - 1))")
contract("artap.operators:UniformGenerator.generate", props=["C12"], options={"region": "for parameter in self.parameters", "check_div": True},
         types={}, locals={"vectors": "List[List[Real]]", "delta": "Real"}, ghost_params={"vectors": "List[List[Real]]"},
         requires=["params_wf(self.parameters)", "valid(self.parameters)", "self.number >= 2", "valid(vectors)", "len(vectors) == 0",
                   "vectors is not self.parameters"],
         ensures=["len(vectors) == len(self.parameters)",
                  "forall(lambda p: valid(vectors[p]) and len(vectors[p]) == self.number, 0, len(vectors))",
                  "forall(lambda p, i: vectors[p][i] == level(self.parameters[p], i, self.number), (0, len(vectors)), (0, self.number))",
                  # from the lower to the upper bound
                  "forall(lambda p: vectors[p][0] == self.parameters[p]['bounds'][0], 0, len(vectors))"],
         loops={1: ["len(vectors) == _k", "_k <= len(self.parameters)", "unchanged(self.parameters)",
                    "forall(lambda i: unchanged(self.parameters[i]['bounds']), 0, len(self.parameters))",
                    "forall(lambda p: valid(vectors[p]) and fresh(vectors[p]) and len(vectors[p]) == self.number, 0, _k)",
                    "forall(lambda p, q: implies(p != q, vectors[p] is not vectors[q]), (0, _k), (0, _k))",
                    "forall(lambda p, i: vectors[p][i] == level(self.parameters[p], i, self.number), (0, _k), (0, self.number))"],
                2: ["len(vectors) == _k1 + 1", "_k1 < len(self.parameters)", "parameter is self.parameters[_k1]", "unchanged(self.parameters)",
                    "forall(lambda i: unchanged(self.parameters[i]['bounds']), 0, len(self.parameters))",
                    "_k2 <= self.number", "valid(vectors[_k1]) and fresh(vectors[_k1]) and len(vectors[_k1]) == _k2",
                    "delta == (parameter['bounds'][1] - parameter['bounds'][0]) / (self.number - 1)",
                    "forall(lambda p: valid(vectors[p]) and fresh(vectors[p]) and len(vectors[p]) == self.number, 0, _k1)",
                    "forall(lambda p, q: implies(p != q, vectors[p] is not vectors[q]), (0, _k1 + 1), (0, _k1 + 1))",
                    "forall(lambda p, i: vectors[p][i] == level(self.parameters[p], i, self.number), (0, _k1), (0, self.number))",
                    "forall(lambda i: vectors[_k1][i] == level(parameter, i, self.number), 0, _k2)"]},
         modifies=["list(vectors)"], allocates=["$list.Real", "$len.Real"],
         notes="region contract: the loop that builds the level lists; `vectors = []` before it is the precondition len(vectors) == 0")
lemma("uniform_last_level_is_upper_bound", props=["C12"], vars=[("lb", "Real"), ("ub", "Real"), ("k", "Real")], hyps=["k >= 2"],
      goal="lb + (k - 1) * ((ub - lb) / (k - 1)) == ub")

# LHS / Halton / grid completeness: numpy code, bounded run-time contracts only
contract("artap.operators:LHSGenerator.generate", props=["C12", "C08"], options={"bounded_only": True},
         trusted="bounded: numpy code (lhs, _lhsclassic); checked at run time over generated configurations",
         ensures=["len(result) == self.number", "all(len(v) == len(self.parameters) for v in result)",
                  # exactly one sample in each of the N equal-width strata of every parameter
                  "all(sorted(min(self.number - 1, int((v[j] - p['bounds'][0]) / ((p['bounds'][1] - p['bounds'][0]) / self.number))) "
                  "for v in result) == list(range(self.number)) for j, p in enumerate(self.parameters))"])
contract("artap.operators:HaltonGenerator.generate", props=["C12", "C08"], options={"bounded_only": True},
         trusted="bounded: numpy code (halton, primes sieve); checked at run time against an independent radical inverse",
         ensures=["len(result) == self.number", "all(len(v) == len(self.parameters) for v in result)",
                  "all(abs(v[j] - (p['bounds'][0] + ghost_radinv(i + 1, ghost_primes[j]) * abs(p['bounds'][1] - p['bounds'][0]))) <= "
                  "1e-9 * (1 + abs(v[j])) for i, v in enumerate(result) for j, p in enumerate(self.parameters))"])
contract("artap.operators:UniformGenerator.generate#grid", props=["C12", "C08"], options={"bounded_only": True},
         trusted="bounded: itertools.product of the verified level lists",
         ensures=["len(result) == self.number ** len(self.parameters)", "all(len(v) == len(self.parameters) for v in result)",
                  "len(set(tuple(v) for v in result)) == len(result)",
                  "all(any(abs(v[j] - (p['bounds'][0] + i * (p['bounds'][1] - p['bounds'][0]) / (self.number - 1))) <= 1e-9 * (1 + abs(v[j])) "
                  "for i in range(self.number)) for v in result for j, p in enumerate(self.parameters))",
                  "all(any(abs(v[j] - p['bounds'][0]) <= 1e-12 for v in result) and any(abs(v[j] - p['bounds'][1]) <= 1e-9 * (1 + abs(p['bounds'][1])) for v in result) "
                  "for j, p in enumerate(self.parameters))"])

# ---- C04: archive = non-dominated set of everything offered -------------------------------------------
# Abstract comparator used by Archive (Pareto or epsilon): an uninterpreted function of the two cost lists
# with the axioms below; every axiom is *proved* for both concrete comparators (refinement obligations).
_H = ["$list.Real", "$len.Real"]
_CP = [("c", "Ref[Dominance]"), ("p", "List[Real]"), ("q", "List[Real]")]
declare_fun("acmp", _CP, "Int", heap=_H)
declare_fun("cmp_ok", _CP, "Bool", heap=_H + ["EpsilonDominance.epsilons"])
define("pareto_as_cmp", ["c", "p", "q"], "pareto_spec(p, q)")
define("eps_as_cmp", ["c", "p", "q"], "eps_spec(p, q)")
define("wf2", ["p", "q"], "len(p) == len(q) and len(p) >= 2")

contract("Dominance.compare", abstract=True, params=["self", "p", "q"], props=["C04", "C18", "C02", "C03", "C09"],
         types={"self": "Ref[Dominance]", "p": "List[Real]", "q": "List[Real]", "result": "Int"},
         requires=["len(p) == len(q)", "len(p) >= 2", "cmp_ok(self, p, q)"],
         returns="acmp(self, p, q)", pure=True,
         notes="refined by ParetoDominance.compare (cmp_ok := True) and EpsilonDominance.compare "
               "(cmp_ok := positive epsilons and rounding-separated pair)")

_INST = [{"acmp": "pareto_as_cmp"}, {"acmp": "eps_as_cmp"}]
_V3 = [("c", "Ref[Dominance]"), ("p", "List[Real]"), ("q", "List[Real]"), ("r", "List[Real]")]
axiom("cmp_range", vars=_V3[:3], instances=_INST, props=["C04"],
      body="implies(wf2(p, q), acmp(c, p, q) == 0 or acmp(c, p, q) == 1 or acmp(c, p, q) == 2)")
axiom("cmp_zero_sym", vars=_V3[:3], instances=_INST, props=["C04"],
      body="implies(wf2(p, q) and acmp(c, p, q) == 0, acmp(c, q, p) == 0)")
axiom("cmp_one_two", vars=_V3[:3], instances=_INST, props=["C04"],
      body="implies(wf2(p, q) and acmp(c, p, q) == 1, acmp(c, q, p) == 2)")
axiom("cmp_irrefl", vars=_V3[:2], instances=_INST, props=["C04"],
      body="implies(len(p) >= 2, acmp(c, p, p) != 1)")
axiom("cmp_trans", vars=_V3, instances=_INST, props=["C04"],
      body="implies(wf2(p, q) and wf2(q, r) and acmp(c, p, q) == 1 and acmp(c, q, r) == 1, acmp(c, p, r) == 1)")
axiom("cmp_two_one", vars=_V3, instances=_INST, props=["C04"],
      body="implies(wf2(p, q) and wf2(p, r) and acmp(c, p, q) == 2 and acmp(c, p, r) == 1, acmp(c, q, r) == 1)")
axiom("cmp_eq_congr", vars=_V3, instances=_INST, props=["C04"],
      body="implies(wf2(p, q) and wf2(p, r) and seq_eq(p, q) and acmp(c, p, r) == 1, acmp(c, q, r) == 1)")
_CMP = ["cmp_range", "cmp_zero_sym", "cmp_one_two", "cmp_irrefl", "cmp_trans", "cmp_two_one", "cmp_eq_congr"]

define("cI", ["a", "x", "s"], "acmp(a._dominance, x.costs_signed, s.costs_signed)")
define("eqI", ["x", "s"], "seq_eq(x.costs_signed, s.costs_signed)")
define("wfI", ["x", "s"], "len(x.costs_signed) == len(s.costs_signed) and len(x.costs_signed) >= 2")
define("arch_inv", ["a"],
       "forall(lambda i, j: implies(i != j, a._contents[i] is not a._contents[j] and "
       "cI(a, a._contents[i], a._contents[j]) == 0 and not eqI(a._contents[i], a._contents[j])), "
       "(0, len(a._contents)), (0, len(a._contents)))")
define("arch_wf", ["a", "x"],
       "forall(lambda i: valid(a._contents[i]) and wfI(x, a._contents[i]) and "
       "cmp_ok(a._dominance, x.costs_signed, a._contents[i].costs_signed), 0, len(a._contents))")
define("loses", ["a", "x", "s"], "cI(a, x, s) == 2 or (cI(a, x, s) == 0 and eqI(x, s))")

contract("artap.archive:Archive.add", props=["C04", "C18"], axioms=["cmp_range", "cmp_zero_sym", "cmp_two_one", "cmp_eq_congr"],
         types={"individual": "Ref[Individual]", "result": "Bool"},
         locals={"is_dominated": "Bool", "is_contained": "Bool"},
         requires=["arch_inv(self)", "arch_wf(self, individual)", "len(individual.costs_signed) >= 2"],
         ensures=[
             "result == (not exists(lambda j: loses(self, individual, old(self._contents[j])), 0, old(len(self._contents))))",
             "implies(not result, unchanged(self._contents))",
             "implies(result, len(self._contents) >= 1 and self._contents[len(self._contents) - 1] is individual)",
             "implies(result, forall(lambda i: exists(lambda j: self._contents[i] is old(self._contents[j]) and "
             "cI(self, individual, old(self._contents[j])) != 1, 0, old(len(self._contents))), 0, len(self._contents) - 1))",
             "implies(result, forall(lambda j: implies(cI(self, individual, old(self._contents[j])) != 1, "
             "exists(lambda i: self._contents[i] is old(self._contents[j]), 0, len(self._contents) - 1)), 0, old(len(self._contents))))",
             "arch_inv(self)",
         ],
         loops={1: [
             "stable(_it)", "_k <= len(_it)",
             "len(_it) == old(len(self._contents))",
             "forall(lambda j: _it[j] is old(self._contents[j]), 0, len(_it))",
             "0 <= number_of_deleted_solutions and number_of_deleted_solutions <= _k",
             "len(self._contents) == len(_it) - number_of_deleted_solutions",
             "forall(lambda j: self._contents[j - number_of_deleted_solutions] is _it[j], _k, len(_it))",
             "forall(lambda i: self._contents[i] is _it[i + number_of_deleted_solutions], _k - number_of_deleted_solutions, len(self._contents))",
             "forall(lambda i: exists(lambda j: self._contents[i] is _it[j] and cI(self, individual, _it[j]) != 1, 0, _k), "
             "0, _k - number_of_deleted_solutions)",
             "forall(lambda j: implies(cI(self, individual, _it[j]) != 1, "
             "exists(lambda i: self._contents[i] is _it[j], 0, _k - number_of_deleted_solutions)), 0, _k)",
             "forall(lambda j: not loses(self, individual, _it[j]), 0, _k)",
             "implies(number_of_deleted_solutions > 0, exists(lambda j: cI(self, individual, _it[j]) == 1, 0, _k))",
             "implies(number_of_deleted_solutions == 0, forall(lambda j: self._contents[j] is _it[j], 0, _k))",
             "forall(lambda i, j: implies(i != j, self._contents[i] is not self._contents[j]), "
             "(0, len(self._contents)), (0, len(self._contents)))",
             "not is_dominated and not is_contained",
         ]},
         modifies=["list(self._contents)"])

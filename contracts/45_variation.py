# ---- C08: variation operators never leave the parameter box ---------------------------------------------------------------
# box_wf: every parameter has bounds lb < ub (the operators divide by ub - lb)
define("pbox_wf", ["ps"],
       "forall(lambda i: valid(ps[i]) and 'bounds' in ps[i] and valid(ps[i]['bounds']) and len(ps[i]['bounds']) >= 2 and "
       "ps[i]['bounds'][0] < ps[i]['bounds'][1], 0, len(ps))")
define("inbox", ["v", "ps"],
       "len(v) == len(ps) and forall(lambda i: ps[i]['bounds'][0] <= v[i] and v[i] <= ps[i]['bounds'][1], 0, len(ps))")

contract("artap.operators:Operator.clip", props=["C08", "C14"],
         types={"value": "Real", "min_value": "Real", "max_value": "Real", "result": "Real"},
         ensures=["result == max(min_value, min(value, max_value))",
                  "implies(min_value <= max_value, min_value <= result and result <= max_value)",
                  "implies(min_value <= value and value <= max_value, result == value)"],
         pure=True, returns="max(min_value, min(value, max_value))")

# polynomial mutation (NSGA-II, eps-MOEA, SMPSO, PSOGA)
contract("artap.operators:PmMutator.pm_mutation", props=["C08"], options={"check_div": True},
         types={"x": "Real", "lb": "Real", "ub": "Real", "result": "Real"},
         locals={"x": "Real"},
         requires=["lb < ub", "lb <= x and x <= ub", "self.distribution_index >= 0"],
         ensures=["lb <= result and result <= ub"], modifies=[])
contract("artap.operators:PmMutator.mutate", props=["C08", "C09"], options={"unused_params": ["current_iteration"]},
         types={"parent": "List[Real]", "result": "List[Real]"},      # current_iteration is unused (callers pass a vector or nothing)
         locals={"vector": "List[Real]"},
         requires=["pbox_wf(self.parameters)", "inbox(parent, self.parameters)", "self.distribution_index >= 0"],
         ensures=["fresh(result)", "inbox(result, self.parameters)", "unchanged(parent)"],
         loops={1: ["len(vector) == _k", "fresh(vector)", "_k <= len(self.parameters)", "unchanged(parent)",
                    "forall(lambda i: self.parameters[i]['bounds'][0] <= vector[i] and vector[i] <= self.parameters[i]['bounds'][1], 0, _k)"]},
         modifies=[], allocates=["$list.Real", "$len.Real"])

# uniform mutation (OMOPSO)
contract("artap.operators:UniformMutator.uniform_mutation", props=["C08"], options={"check_div": True},
         types={"x": "Real", "lb": "Real", "ub": "Real", "result": "Real"}, locals={"x": "Real"},
         requires=["lb <= ub"], ensures=["lb <= result and result <= ub"], modifies=[])
contract("artap.operators:UniformMutator.mutate", props=["C08", "C09"],
         types={"parent": "List[Real]", "current_iteration": "Int", "result": "List[Real]"},
         locals={"vector": "List[Real]"},
         requires=["pbox_wf(self.parameters)", "inbox(parent, self.parameters)"],
         ensures=["fresh(result)", "inbox(result, self.parameters)", "unchanged(parent)"],
         loops={1: ["len(vector) == _k", "fresh(vector)", "_k <= len(self.parameters)", "unchanged(parent)",
                    "forall(lambda i: self.parameters[i]['bounds'][0] <= vector[i] and vector[i] <= self.parameters[i]['bounds'][1], 0, _k)"]},
         modifies=[], allocates=["$list.Real", "$len.Real"])

# non-uniform mutation (OMOPSO): real-valued for iteration numbers 0..max_iterations
contract("artap.operators:NonUniformMutation.__delta", props=["C08"], options={"check_div": True},
         types={"y": "Real", "b_mutation_parameter": "Real", "current_iteration": "Int", "result": "Real"},
         requires=["self.max_iterations > 0", "0 <= current_iteration and current_iteration <= self.max_iterations",
                   "b_mutation_parameter >= 0"],
         ensures=[], modifies=[])
contract("artap.operators:NonUniformMutation.non_uniform_mutation", props=["C08"], options={"check_div": True},
         types={"x": "Real", "lb": "Real", "ub": "Real", "current_iteration": "Int", "result": "Real"}, locals={"x": "Real"},
         requires=["lb <= ub", "self.max_iterations > 0", "0 <= current_iteration and current_iteration <= self.max_iterations",
                   "self.perturbation >= 0"],
         ensures=["lb <= result and result <= ub"], modifies=[])
contract("artap.operators:NonUniformMutation.mutate", props=["C08", "C09"],
         types={"parent": "List[Real]", "current_iteration": "Int", "result": "List[Real]"},
         locals={"vector": "List[Real]"},
         requires=["pbox_wf(self.parameters)", "inbox(parent, self.parameters)", "self.max_iterations > 0",
                   "0 <= current_iteration and current_iteration <= self.max_iterations", "self.perturbation >= 0"],
         ensures=["fresh(result)", "inbox(result, self.parameters)", "unchanged(parent)"],
         loops={1: ["len(vector) == _k", "fresh(vector)", "_k <= len(self.parameters)", "unchanged(parent)",
                    "forall(lambda i: self.parameters[i]['bounds'][0] <= vector[i] and vector[i] <= self.parameters[i]['bounds'][1], 0, _k)"]},
         modifies=[], allocates=["$list.Real", "$len.Real"])

# simulated binary crossover
contract("artap.operators:SimulatedBinaryCrossover.cross", props=["C08", "C09"], options={"check_div": True},
         types={"p1": "List[Real]", "p2": "List[Real]", "result": "Tuple[List[Real],List[Real]]"},
         locals={"x1": "List[Real]", "x2": "List[Real]"},
         requires=["pbox_wf(self.parameters)", "inbox(p1, self.parameters)", "inbox(p2, self.parameters)", "self.distribution_index >= 0"],
         ensures=["fresh(result[0])", "fresh(result[1])", "result[0] is not result[1]",
                  "inbox(result[0], self.parameters)", "inbox(result[1], self.parameters)", "unchanged(p1)", "unchanged(p2)"],
         loops={1: ["fresh(x1)", "fresh(x2)", "x1 is not x2", "_k <= len(self.parameters)", "unchanged(p1)", "unchanged(p2)",
                    "inbox(x1, self.parameters)", "inbox(x2, self.parameters)"]},
         modifies=[], allocates=["$list.Real", "$len.Real"])

# ---- offspring generation (NSGA-II, eps-MOEA, PSOGA): exactly N pairwise different children inside the box ----------------
contract("artap.archive:Archive.__len__", props=["C08", "C09"], types={"result": "Int"},
         ensures=["result == len(self._contents)"], pure=True, returns="len(self._contents)")
define("gen_ready", ["a", "parents"],
       "valid(a.selector) and valid(a.crossover) and valid(a.mutator) and valid(a.options) and valid(a.selector.dominance) and "
       "a.crossover.parameters is a.mutator.parameters and valid(a.mutator.parameters) and len(a.mutator.parameters) >= 1 and pbox_wf(a.mutator.parameters) and "
       "a.crossover.distribution_index >= 0 and a.mutator.distribution_index >= 0 and len(parents) >= 1 and "
       "forall(lambda j: valid(parents[j]) and ranked(parents[j]) and valid(parents[j].costs_signed) and valid(parents[j].vector) and "
       "inbox(parents[j].vector, a.mutator.parameters), 0, len(parents)) and "
       "forall(lambda i, j: wfI(parents[i], parents[j]) and cmp_ok(a.selector.dominance, parents[i].costs_signed, parents[j].costs_signed), "
       "(0, len(parents)), (0, len(parents)))")
define("child_ok", ["c", "ps"],
       "valid(c) and fresh(c) and c.state == 0 and c.ghost_evals == 0 and owner(c.vector) is c and owner(c.costs) is c and "
       "owner(c.costs_signed) is c and owner(c.features) is c and valid(c.vector) and fresh(c.vector) and inbox(c.vector, ps) and "
       "valid(c.costs) and valid(c.costs_signed) and valid(c.features) and "
       "len(c.costs) == 0 and c.population_id == -1")
contract("artap.algorithm_genetic:GeneticAlgorithm.generate", props=["C08", "C09"],
         types={"parents": "List[Ref[Individual]]", "archive": "Opt[Ref[Archive]]", "result": "List[Ref[Individual]]"},
         locals={"offsprings": "List[Ref[Individual]]", "vector_1": "List[Real]", "vector_2": "List[Real]",
                 "parent1": "Ref[Individual]", "parent2": "Ref[Individual]", "child1": "Ref[Individual]", "child2": "Ref[Individual]"},
         requires=["gen_ready(self, parents)", "self.options['max_population_size'] >= 2",
                   "implies(not is_none(archive), valid(archive._contents) and forall(lambda j: valid(archive._contents[j]) and "
                   "valid(archive._contents[j].vector) and inbox(archive._contents[j].vector, self.mutator.parameters), 0, len(archive._contents)))"],
         ensures=["fresh(result)", "len(result) == self.options['max_population_size']",
                  "forall(lambda i: child_ok(result[i], self.mutator.parameters), 0, len(result))",
                  # pairwise different designs (Individual.__eq__: all coordinates within 1e-10) and different objects
                  # (stated newer against older, the direction in which generate() tests `child == offspring`; Individual.__eq__ is
                  #  symmetric by lemma eq_symmetric of C20)
                  "forall(lambda i, j: implies(i < j, result[i] is not result[j] and not vec_close(result[j], result[i])), "
                  "(0, len(result)), (0, len(result)))",
                  "unchanged(parents)", "forall(lambda j: unchanged(parents[j].vector), 0, len(parents))"],
         loops={1: ["fresh(offsprings)", "len(offsprings) <= self.options['max_population_size']",
                    "forall(lambda i: child_ok(offsprings[i], self.mutator.parameters), 0, len(offsprings))",
                    "forall(lambda i, j: implies(i < j, offsprings[i] is not offsprings[j] and not vec_close(offsprings[j], offsprings[i])), "
                    "(0, len(offsprings)), (0, len(offsprings)))",
                    "unchanged(parents)", "forall(lambda j: unchanged(parents[j].vector), 0, len(parents))",
                    "implies(not is_none(archive), unchanged(archive._contents) and "
                    "forall(lambda j: unchanged(archive._contents[j].vector), 0, len(archive._contents)))"]},
         ghost={"after:child1.vector = self.mutator.mutate(child1.vector, child2.vector)": ["set_owner(child1.vector, child1)"],
                "after:child2.vector = self.mutator.mutate(child2.vector, child1.vector)": ["set_owner(child2.vector, child2)"]},
         modifies=["$cv.Individual.counter"], allocates=True,
         notes="parent1.__class__(v) is modelled as Individual(v): subclasses (IndividualEpsMOEA, IndividualSwarm) extend "
               "Individual.__init__ with feature entries only")

# ---- swarm turbulence: mutated particles stay inside the box (C08: every design evaluated during an OMOPSO / SMPSO run) -------
define("swarm_inbox", ["particles", "ps"],
       "forall(lambda t: valid(particles[t]) and valid(particles[t].vector) and inbox(particles[t].vector, ps), 0, len(particles))")
contract("artap.algorithm_swarm:OMOPSO.turbulence", props=["C08"],
         types={"particles": "List[Ref[Individual]]", "current_step": "Int"}, locals={"mutated": "List[Real]"},
         requires=["valid(self.uniform_mutator) and valid(self.non_uniform_mutator)",
                   "self.uniform_mutator.parameters is self.non_uniform_mutator.parameters and valid(self.uniform_mutator.parameters)",
                   "pbox_wf(self.uniform_mutator.parameters)", "swarm_inbox(particles, self.uniform_mutator.parameters)",
                   "self.non_uniform_mutator.max_iterations > 0 and 0 <= current_step and current_step <= self.non_uniform_mutator.max_iterations",
                   "self.non_uniform_mutator.perturbation >= 0"],
         ensures=["swarm_inbox(particles, self.uniform_mutator.parameters)", "unchanged(particles)"],
         loops={1: ["swarm_inbox(particles, self.uniform_mutator.parameters)", "unchanged(particles)",
                    "unchanged(self.uniform_mutator.parameters)",
                    "forall(lambda i: unchanged(self.uniform_mutator.parameters[i]['bounds']), 0, len(self.uniform_mutator.parameters))"]},
         modifies=["each(particles).vector"], allocates=["$list.Real", "$len.Real"])
contract("artap.algorithm_swarm:SMPSO.turbulence", props=["C08"],
         types={"particles": "List[Ref[Individual]]", "current_step": "Int"},
         requires=["valid(self.mutator)", "valid(self.mutator.parameters)", "pbox_wf(self.mutator.parameters)",
                   "swarm_inbox(particles, self.mutator.parameters)", "self.mutator.distribution_index >= 0"],
         ensures=["swarm_inbox(particles, self.mutator.parameters)", "unchanged(particles)"],
         loops={1: ["swarm_inbox(particles, self.mutator.parameters)", "unchanged(particles)", "unchanged(self.mutator.parameters)",
                    "forall(lambda i: unchanged(self.mutator.parameters[i]['bounds']), 0, len(self.mutator.parameters))"]},
         modifies=["each(particles).vector"], allocates=["$list.Real", "$len.Real"])

# ---- C15: single-objective benchmarks: one real cost, nothing in the box beats the documented optimum, optimum attained ------
for _c in ("Rosenbrock", "Ackley", "Sphere", "ModifiedEasom", "EqualityConstr", "Griewank", "Perm", "Rastrigin", "SixHump",
           "Zakharov", "XinSheYang", "XinSheYang2", "XinSheYang3", "Booth", "AlpineFunction", "Schwefel", "Michaelwicz", "Schubert",
           "GramacyLee"):
    classdef(_c, bases=["BenchmarkFunction"], fields={})
define("in_box", ["v", "lo", "hi"], "forall(lambda i: lo <= v[i] and v[i] <= hi, 0, len(v))")
define("all_eq", ["v", "a"], "forall(lambda i: v[i] == a, 0, len(v))")
_BM = "artap.benchmark_functions:%s.evaluate"
_T = {"x": "Ref[Individual]", "result": "List[Real]"}


def _bm(cls, lo, hi, inv, ens, locals_=None, extra_req=(), loops2=None, ghost=None, dim=True, notes=""):
    req = ["valid(x.vector)", "in_box(x.vector, %s, %s)" % (lo, hi)] + list(extra_req)
    if dim:
        req.append("self.dimension == len(x.vector)")
    loc = {"x": "List[Real]"}
    loc.update(locals_ or {})
    loops = {1: inv} if inv else {}
    if loops2:
        loops.update(loops2)
    contract(_BM % cls, props=["C15"], types=_T, locals=loc, requires=req,
             ensures=["len(result) == 1"] + ens, loops=loops, ghost=ghost or {}, allocates=["$list.Real", "$len.Real"], notes=notes)


# minimum 0 at the origin / at ones; "old(x.vector)" is the argument's vector (the parameter name x is re-bound in the bodies)
_bm("Sphere", "-5.12", "5.12", ["sum >= 0", "implies(forall(lambda i: x[i] == 0, 0, _k), sum == 0)"],
    ["result[0] >= 0 - 1e-3", "implies(all_eq(old(x.vector), 0), result[0] == 0)"], {"sum": "Real"}, dim=False)
_bm("Rosenbrock", "-5.0", "10.0",
    ["scores >= 0", "_k <= self.dimension - 1", "implies(forall(lambda i: x[i] == 1, 0, _k + 1), scores == 0)"],
    ["result[0] >= 0 - 1e-3", "implies(all_eq(old(x.vector), 1), result[0] == 0)"], {"scores": "Real", "a": "Real", "b": "Real"},
    extra_req=["len(x.vector) >= 1"])
_bm("Rastrigin", "-5.12", "5.12",
    ["fitness >= 10 * (self.dimension - _k)", "implies(forall(lambda i: x[i] == 0, 0, _k), fitness == 10 * (self.dimension - _k))"],
    ["result[0] >= 0 - 1e-3", "implies(all_eq(old(x.vector), 0), result[0] == 0)"], {"fitness": "Real"})
_bm("Zakharov", "-5.0", "10.0",
    ["f1 >= 0", "f2 == f3", "implies(forall(lambda i: x[i] == 0, 0, _k), f1 == 0 and f2 == 0)"],
    ["result[0] >= 0 - 1e-3", "implies(all_eq(old(x.vector), 0), result[0] == 0)"], {"f1": "Real", "f2": "Real", "f3": "Real"}, dim=False)
_bm("AlpineFunction", "0.0", "10.0", ["f1 >= 0", "implies(forall(lambda i: x[i] == 0, 0, _k), f1 == 0)"],
    ["result[0] >= 0 - 1e-3", "implies(all_eq(old(x.vector), 0), result[0] == 0)"], {"f1": "Real"}, dim=False)
_bm("Griewank", "-512.0", "512.0",
    ["summa >= 0", "-1 <= produkt and produkt <= 1", "implies(forall(lambda i: x[i] == 0, 0, _k), summa == 0 and produkt == 1)"],
    ["result[0] >= 0 - 1e-3", "implies(all_eq(old(x.vector), 0), result[0] == 0)"], {"summa": "Real", "produkt": "Real"}, dim=False)
_bm("Booth", "-5.0", "5.0", None,
    ["result[0] >= 0 - 1e-3", "implies(old(x.vector)[0] == 1 and old(x.vector)[1] == 3, result[0] == 0)"],
    extra_req=["len(x.vector) == 2"], dim=False)
_bm("XinSheYang", "-2.0 * pi", "2.0 * pi", ["f1 >= 0", "implies(_k == 0, f1 == 0)", "implies(_k > 0, f1 == abs(x[_k - 1]) and f2 == sin(x[_k - 1] * x[_k - 1]))"],
    ["result[0] >= 0 - 1e-3", "implies(all_eq(old(x.vector), 0), result[0] == 0)"], {"f1": "Real", "f2": "Real"}, dim=False,
    notes="the body overwrites f1/f2 in every round: only the last coordinate enters the value (the bound still holds)")
_bm("XinSheYang3", "-5.0", "5.0", ["f1 >= 0", "implies(_k == 0, f1 == 0)", "implies(_k > 0 and x[_k - 1] == 1.0 / _k, f1 == 0)"],
    ["result[0] >= 0 - 1e-3",
     "implies(forall(lambda i: old(x.vector)[i] == 1.0 / (i + 1), 0, len(old(x.vector))), result[0] == 0)"],
    {"f1": "Real", "eps": "Real"}, dim=False, notes="checked clause by clause on each draw eps in [0,1]")
_bm("Ackley", "-32.0", "32.0",
    ["firstSum >= 0", "secondSum <= _k", "implies(forall(lambda i: x[i] == 0, 0, _k), firstSum == 0 and secondSum == _k)"],
    ["result[0] >= 0 - 1e-3", "implies(all_eq(old(x.vector), 0), abs(result[0]) <= 1e-3)"],
    {"firstSum": "Real", "secondSum": "Real", "n": "Real"}, extra_req=["len(x.vector) >= 1"], dim=False)
# Easom: value >= -1 everywhere; -(-1)^n at x = pi: the documented optimum -1 is attained for even dimensions only
_bm("ModifiedEasom", "-2.0 * pi", "2.0 * pi",
    ["summa >= 0", "-1 <= product and product <= 1",
     "implies(forall(lambda i: x[i] == pi, 0, _k), summa == 0 and product == (-1 if _k % 2 == 0 else 1))"],
    ["result[0] >= -1 - 1e-3",
     "implies(all_eq(old(x.vector), pi) and len(old(x.vector)) % 2 == 0, result[0] == -1)",
     # KNOWN FINDING (known_findings.json): for odd dimensions the value at the documented optimum is +1, not -1
     "implies(all_eq(old(x.vector), pi) and len(old(x.vector)) % 2 == 1, result[0] == -1)"],
    {"summa": "Real", "product": "Real"}, dim=False)
_bm("SixHump", "-3.0", "3.0", None,
    ["result[0] >= -1.0316 - 1e-3",
     "implies(old(x.vector)[0] == 0.0898 and old(x.vector)[1] == -0.7126, abs(result[0] - (-1.0316)) <= 1e-3)"],
    extra_req=["len(x.vector) == 2", "-2.0 <= x.vector[1] and x.vector[1] <= 2.0"], dim=False)
_bm("EqualityConstr", "0.0", "1.0", ["product >= 0"],
    ["result[0] >= -1 - 1e-3"], {"product": "Real", "summa": "Real"})

# Functions whose bound / optimum clauses need certified numerics of sin/exp compositions over a box (interval branch and bound:
# a different technique): only a bounded run-time evaluation of the clauses is attached (never counted as proved).
_GEN_ENS = ["len(result) == 1 and isfinite(result[0])",
            "implies(self.costs[0]['criteria'] == 'minimize', result[0] >= self.global_optimum - 1e-3)",
            "implies(self.costs[0]['criteria'] != 'minimize', result[0] <= self.global_optimum + 1e-3)",
            "implies(at_optimum, abs(result[0] - self.global_optimum) <= 1e-3)"]
for _c in ("Schwefel", "Michaelwicz", "Schubert", "GramacyLee", "Perm", "XinSheYang2"):
    contract(_BM % _c, props=["C15"], options={"bounded_only": True}, types=_T, requires=[], ensures=_GEN_ENS)
for _c in ("Synthetic1D", "Synthetic2D", "Synthetic5D", "Synthetic10D"):
    contract("artap.benchmark_robust:%s.evaluate" % _c, props=["C15"], options={"bounded_only": True}, types=_T, requires=[], ensures=_GEN_ENS)

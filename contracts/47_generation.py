# ---- C09: steady-state acceptance of eps-MOEA keeps the population size -----------------------------------------------------
define("shifted_out", ["xs", "k", "new"],
       "len(xs) == old(len(xs)) and 0 <= k and k < old(len(xs)) and "
       "forall(lambda t: xs[t] is old(xs[t]), 0, k) and forall(lambda t: xs[t] is old(xs[t + 1]), k, len(xs) - 1) and "
       "xs[len(xs) - 1] is new")
define("acc_dom", ["s", "x", "y"], "acmp(s.dominance, x.costs_signed, y.costs_signed)")
contract("artap.operators:Selector.pop_acceptance", props=["C09"],
         types={"individuals": "List[Ref[Individual]]", "individual": "Ref[Individual]"},
         locals={"dominates": "List[Int]", "dominated": "Bool", "flag": "Int"},
         ghost_results={"gk": "Int"},
         requires=["valid(self.dominance)", "valid(individual)", "valid(individual.costs_signed)", "valid(individual.vector)",
                   "len(individuals) >= 1", "len(individual.vector) >= 1",
                   "forall(lambda j: valid(individuals[j]) and valid(individuals[j].costs_signed) and valid(individuals[j].vector) and "
                   "len(individuals[j].vector) == len(individual.vector) and wfI(individual, individuals[j]) and "
                   "cmp_ok(self.dominance, individual.costs_signed, individuals[j].costs_signed), 0, len(individuals))"],
         ensures=[
             # the working population keeps its size at every acceptance step
             "len(individuals) == old(len(individuals))",
             # an offspring that dominates members replaces one of the members it dominates
             "implies(exists(lambda j: acc_dom(self, individual, old(individuals[j])) == 1, 0, old(len(individuals))), "
             "shifted_out(individuals, gk, individual) and acc_dom(self, individual, old(individuals[gk])) == 1)",
             # one that is dominated without dominating any member is rejected
             "implies(not exists(lambda j: acc_dom(self, individual, old(individuals[j])) == 1, 0, old(len(individuals))) and "
             "exists(lambda j: acc_dom(self, individual, old(individuals[j])) == 2, 0, old(len(individuals))), unchanged(individuals))",
             # any other offspring replaces one arbitrary member
             "implies(not exists(lambda j: acc_dom(self, individual, old(individuals[j])) == 1, 0, old(len(individuals))) and "
             "not exists(lambda j: acc_dom(self, individual, old(individuals[j])) == 2, 0, old(len(individuals))), "
             "shifted_out(individuals, gk, individual))"],
         loops={1: ["unchanged(individuals)", "fresh(dominates)", "_k <= len(individuals)",
                    "forall(lambda t: 0 <= dominates[t] and dominates[t] < _k and "
                    "acc_dom(self, individual, individuals[dominates[t]]) == 1, 0, len(dominates))",
                    "(len(dominates) > 0) == exists(lambda j: acc_dom(self, individual, individuals[j]) == 1, 0, _k)",
                    "dominated == exists(lambda j: acc_dom(self, individual, individuals[j]) == 2, 0, _k)"]},
         ghost={"after:del individuals[random.choice(dominates)]": ["gk = dominates[_choice_index]"],
                "after:individuals.remove(random.choice(individuals))": ["gk = _removed_index"]},
         modifies=["list(individuals)"], allocates=["$list.Int", "$len.Int"])

# ---- whole runs: orchestration of the verified steps (BOUNDED: evaluated at run time on real runs, never counted as proved) --
# ghost attributes installed by the scenario: problem.ghost_calls (successful objective evaluations), problem.ghost_vectors
# (every vector handed to the objective), run_N / run_G (configuration)
define("gen_of", ["p", "g"], "[x for x in p.individuals if x.population_id == g]")
define("vclose", ["a", "b"], "len(a.vector) == len(b.vector) and all(abs(u - v) < 1e-10 for u, v in zip(a.vector, b.vector))")
define("run_in_box", ["p"],
       "all(len(v) == len(p.parameters) and all(q['bounds'][0] - 1e-12 / 2 <= c and c <= q['bounds'][1] + 1e-12 / 2 "
       "for c, q in zip(v, p.parameters)) for v in p.ghost_vectors)")
define("dominates_rt", ["p", "a", "b"], "p.ghost_cmp.compare(a.costs_signed, b.costs_signed) == 1")
_RUN_COMMON = ["run_in_box(self.problem)"]
contract("artap.algorithm_NSGAII:NSGAII.run", props=["C09", "C08"], options={"bounded_only": True},
         trusted="bounded: orchestration of generate / evaluate / sort / truncate checked on real runs only",
         ensures=_RUN_COMMON + [
             "self.problem.ghost_calls == self.run_N * self.run_G",
             "all(1 <= x.population_id and x.population_id <= self.run_G for x in self.problem.individuals)",
             "all(len(gen_of(self.problem, g)) == self.run_N for g in range(1, self.run_G + 1))",
             "all(not vclose(a, b) for g in range(2, self.run_G + 1) for i, a in enumerate(gen_of(self.problem, g)) "
             "for j, b in enumerate(gen_of(self.problem, g)) if i < j)",
             # generational elitism: a dropped design of generation g never dominates a survivor in generation g + 1
             "all(not dominates_rt(self.problem, d, s) for g in range(1, self.run_G) for d in gen_of(self.problem, g) "
             "if not any(vclose(d, t) for t in gen_of(self.problem, g + 1)) for s in gen_of(self.problem, g + 1))",
             "implies(len(self.problem.costs) == 1, all(min(x.costs[0] for x in gen_of(self.problem, g + 1)) <= "
             "min(x.costs[0] for x in gen_of(self.problem, g)) + 1e-12 for g in range(1, self.run_G)))"])
_LEADERS = ["len(self.leaders._contents) <= self.run_N",       # C18: the leader archive never exceeds the population size ...
            "all(self.problem.ghost_cmp.compare(a.costs_signed, b.costs_signed) == 0 for i, a in enumerate(self.leaders._contents) "
            "for j, b in enumerate(self.leaders._contents) if i != j)"]      # ... and its members are mutually non-dominated
for _t in ("artap.algorithm_genetic:EpsMOEA.run", "artap.algorithm_swarm:OMOPSO.run", "artap.algorithm_swarm:SMPSO.run"):
    contract(_t, props=["C09", "C08"] + ([] if "EpsMOEA" in _t else ["C18"]), options={"bounded_only": True},
             trusted="bounded: orchestration checked on real runs only",
             ensures=_RUN_COMMON + [
                 "self.problem.ghost_calls == self.run_N * (self.run_G + 1)",
                 "all(0 <= x.population_id and x.population_id <= self.run_G for x in self.problem.individuals)",
                 "all(len(gen_of(self.problem, g)) == self.run_N for g in range(0, self.run_G + 1))"] +
             ([] if "EpsMOEA" in _t else _LEADERS))
contract("artap.algorithm_swarm:PSOGA.run", props=["C08"], options={"bounded_only": True},
         trusted="bounded: orchestration checked on real runs only", ensures=_RUN_COMMON)

# ---- C09: steady-state acceptance of eps-MOEA keeps the population size -----------------------------------------------------
define("shifted_out", ["xs", "k", "new"],
       "len(xs) == old(len(xs)) and 0 <= k and k < old(len(xs)) and "
       "forall(lambda t: xs[t] is old(xs[t]), 0, k) and forall(lambda t: xs[t] is old(xs[t + 1]), k, len(xs) - 1) and "
       "xs[len(xs) - 1] is new")
define("acc_dom", ["s", "x", "y"], "acmp(s.dominance, x.costs_signed, y.costs_signed)")
contract("artap.operators:Selector.pop_acceptance", props=["C09"],
         types={"individuals": "List[Ref[Individual]]", "individual": "Ref[Individual]"},
         locals={"dominates": "List[Int]", "dominated": "Bool", "flag": "Int"},
         ghost_results={"gk": "Int"},
         requires=["valid(self.dominance)", "valid(individual)", "valid(individual.costs_signed)", "valid(individual.vector)",
                   "len(individuals) >= 1", "len(individual.vector) >= 1",
                   "forall(lambda j: valid(individuals[j]) and valid(individuals[j].costs_signed) and valid(individuals[j].vector) and "
                   "len(individuals[j].vector) == len(individual.vector) and wfI(individual, individuals[j]) and "
                   "cmp_ok(self.dominance, individual.costs_signed, individuals[j].costs_signed), 0, len(individuals))"],
         ensures=[
             # the working population keeps its size at every acceptance step
             "len(individuals) == old(len(individuals))",
             # an offspring that dominates members replaces one of the members it dominates
             "implies(exists(lambda j: acc_dom(self, individual, old(individuals[j])) == 1, 0, old(len(individuals))), "
             "shifted_out(individuals, gk, individual) and acc_dom(self, individual, old(individuals[gk])) == 1)",
             # one that is dominated without dominating any member is rejected
             "implies(not exists(lambda j: acc_dom(self, individual, old(individuals[j])) == 1, 0, old(len(individuals))) and "
             "exists(lambda j: acc_dom(self, individual, old(individuals[j])) == 2, 0, old(len(individuals))), unchanged(individuals))",
             # any other offspring replaces one arbitrary member
             "implies(not exists(lambda j: acc_dom(self, individual, old(individuals[j])) == 1, 0, old(len(individuals))) and "
             "not exists(lambda j: acc_dom(self, individual, old(individuals[j])) == 2, 0, old(len(individuals))), "
             "shifted_out(individuals, gk, individual))"],
         loops={1: ["unchanged(individuals)", "fresh(dominates)", "_k <= len(individuals)",
                    "forall(lambda t: 0 <= dominates[t] and dominates[t] < _k and "
                    "acc_dom(self, individual, individuals[dominates[t]]) == 1, 0, len(dominates))",
                    "(len(dominates) > 0) == exists(lambda j: acc_dom(self, individual, individuals[j]) == 1, 0, _k)",
                    "dominated == exists(lambda j: acc_dom(self, individual, individuals[j]) == 2, 0, _k)"]},
         ghost={"after:del individuals[random.choice(dominates)]": ["gk = dominates[_choice_index]"],
                "after:individuals.remove(random.choice(individuals))": ["gk = _removed_index"]},
         modifies=["list(individuals)"], allocates=["$list.Int", "$len.Int"])

# ---- C20: design-point equality and hashing -----------------------------------------------------------
define("vec_close", ["a", "b"],
       "forall(lambda i: abs(a.vector[i] - b.vector[i]) < 1e-10, 0, len(a.vector))")

contract("artap.individual:Individual.__eq__",
         props=["C20", "C03", "C09"],
         types={"other": "Ref[Individual]", "result": "Bool"},
         locals={"diff": "Real"},
         requires=["len(self.vector) == len(other.vector)", "len(self.vector) >= 1"],
         ensures=["result == vec_close(self, other)"],
         loops={1: ["_k == 0 or (diff < 1e-10) == forall(lambda i: abs(self.vector[i] - other.vector[i]) < 1e-10, 0, _k)",
                    "_k == 0 implies diff == 1" if False else "implies(_k == 0, diff == 1)"]},
         pure=True, returns="vec_close(self, other)")

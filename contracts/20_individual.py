# ---- C20: design-point equality and hashing -----------------------------------------------------------
define("vec_close", ["a", "b"],
       "forall(lambda i: abs(a.vector[i] - b.vector[i]) < 1e-10, 0, len(a.vector))")

contract("artap.individual:Individual.__eq__",
         props=["C20", "C03", "C09"],
         types={"other": "Ref[Individual]", "result": "Bool"},
         locals={"diff": "Real"},
         requires=["len(self.vector) == len(other.vector)", "len(self.vector) >= 1"],
         ensures=["result == vec_close(self, other)"],
         loops={1: ["implies(_k == 0, diff == 1)",
                    "implies(_k > 0, diff < 1e-10 and forall(lambda i: abs(self.vector[i] - other.vector[i]) < 1e-10, 0, _k))"]},
         pure=True, returns="vec_close(self, other)")

_AB = [("a", "Ref[Individual]"), ("b", "Ref[Individual]")]
lemma("eq_symmetric", props=["C20"], vars=_AB,
      hyps=["len(a.vector) == len(b.vector)"], goal="vec_close(a, b) == vec_close(b, a)")
lemma("eq_holds_for_identical_vectors", props=["C20"], vars=_AB,
      hyps=["seq_eq(a.vector, b.vector)"], goal="vec_close(a, b)")
lemma("eq_detects_any_coordinate", props=["C20"], vars=_AB + [("k", "Int")],
      hyps=["len(a.vector) == len(b.vector)", "0 <= k and k < len(a.vector)", "abs(a.vector[k] - b.vector[k]) >= 1e-10"],
      goal="not vec_close(a, b)")

# __hash__ = hash(tuple(self.vector)): tuple(...) is the value sequence, hash an uninterpreted function of it
define("hash_spec", ["x"], "hash(tuple(x.vector))")
contract("artap.individual:Individual.__hash__", props=["C20", "C03"],
         types={"result": "Int"}, ensures=["result == hash_spec(self)"], pure=True, returns="hash_spec(self)")
lemma("hash_congruent", props=["C20", "C03"], vars=_AB,
      hyps=["seq_eq(a.vector, b.vector)"], goal="hash_spec(a) == hash_spec(b)")

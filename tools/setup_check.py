#!/usr/bin/env python3
"""MANIFEST.setup_cmd: sanity of the offline tool chain (nothing is installed or fetched)."""
import os
import subprocess
import sys

here = os.path.dirname(os.path.dirname(os.path.abspath(__file__)))
sys.path.insert(0, here)
import z3  # noqa
print("z3", z3.get_version_string())
from pyvc.load import load_registry  # noqa
reg = load_registry()
print("contracts", len(reg.contracts), "lemmas", len(reg.lemmas), "axioms", len(reg.axioms))
r = subprocess.run(["/venv/bin/python", "-c", "import artap, numpy; print('artap ok, numpy', numpy.__version__)"],
                   capture_output=True, text=True, env=dict(os.environ, PYTHONPATH="/repo"))
print(r.stdout.strip() or r.stderr.strip()[-300:])
sys.exit(0 if r.returncode == 0 else 1)

#!/bin/bash
# usage: tools/mut.sh <file> <line> <from-regex> <to> <target...>   -- mutate a scratch copy and run pyvc dev on it (development helper)
set -e
M=/tmp/mut
[ -d $M/artap ] || { mkdir -p $M; cp -r /repo/artap $M/artap; }
f=$1; line=$2; from=$3; to=$4; shift 4
cp /repo/artap/$f $M/artap/$f
sed -i "${line}s/${from}/${to}/" $M/artap/$f
if diff -q /repo/artap/$f $M/artap/$f >/dev/null; then echo "NO CHANGE"; fi
(cd /verif && PYVC_REPO=$M timeout 600 python3-vt -m pyvc dev "$@" | grep -E "refuted|unknown|proved [0-9]|status" | cut -c1-170 | head -${MUT_LINES:-4})
cp /repo/artap/$f $M/artap/$f

#!/usr/bin/env python3
"""print every verifiable target (development helper):  python3-vt tools/all_targets.py | xargs python3-vt -m pyvc dev"""
import os, sys
sys.path.insert(0, os.path.dirname(os.path.dirname(os.path.abspath(__file__))))
from pyvc.load import load_registry
reg = load_registry()
for k, c in reg.contracts.items():
    if not c.abstract and not c.trusted and not c.options.get('bounded_only'):
        print(k)

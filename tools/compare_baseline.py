#!/usr/bin/env python3
"""compare a junit xml with BASELINE.json stable_pass (development helper)"""
import json, sys, xml.etree.ElementTree as ET
base = set(json.load(open('/root/.vp/BASELINE.json'))['stable_pass'])
t = ET.parse(sys.argv[1]).getroot()
passed = set()
for tc in t.iter('testcase'):
    name = "%s::%s" % (tc.get('classname'), tc.get('name'))
    if not any(ch.tag in ('failure', 'error', 'skipped') for ch in tc):
        passed.add(name)
missing = sorted(base - passed)
print("baseline", len(base), "passed now", len(passed & base), "missing", missing)

#!/bin/bash
# usage: tools/try_seed.sh <property> <seed-dir> [test files...]   (development helper)
# confirms demo (passes on HEAD, fails with patch) in a scratch worktree, then runs the registered check against /repo + patch
P=$1; D=$2; shift 2
W=/tmp/conf_$$
git -C /repo worktree add -q --detach $W HEAD
( cd $W && PYTHONPATH=$W /venv/bin/python $D/demo.py >/dev/null 2>&1; echo "demo on HEAD: exit $?" )
( cd $W && git apply $D/patch.diff && PYTHONPATH=$W /venv/bin/python $D/demo.py >/dev/null 2>&1; echo "demo with patch: exit $?" )
if [ $# -gt 0 ]; then ( cd $W && PYTHONPATH=$W timeout 1200 /venv/bin/python -m pytest -q -p no:cacheprovider "$@" 2>&1 | tail -1 ); fi
git -C /repo worktree remove --force $W
git -C /repo apply $D/patch.diff && ( cd /verif && timeout 1500 python3-vt -m pyvc check $P 2>&1 | grep -v WARN | grep -E "VIOLATION|KNOWN|property |undecided" | cut -c1-260 ); git -C /repo checkout -- . ; git -C /repo status --short | head -3

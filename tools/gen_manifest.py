#!/usr/bin/env python3
"""Regenerate MANIFEST.json from the table below (development helper; not used by any registered command)."""
import json
import os

HERE = os.path.dirname(os.path.dirname(os.path.abspath(__file__)))
props = [json.loads(l) for l in open(os.path.join(HERE, "properties.jsonl"))]

TRUST = ("Trusted base: the pyvc VC generator (AST of /repo re-read each run -> SMT), z3 5.1 (z3 4.8.12 / cvc5 as fall-back), "
         "the library models and assumptions listed in the evidence file; partial correctness only.")

CLAIMED = {
    "C01": dict(cat="proof", ref="5/C01",
                text="Postconditions and loop invariants of ParetoDominance.compare and EpsilonDominance.compare are discharged for "
                     "cost vectors of any length; irreflexivity, antisymmetry, transitivity and the epsilon/Pareto agreement are "
                     "lemmas over those postconditions. Universally quantified over inputs, which sampling cannot give.",
                note=TRUST + " Floats: comparison-only code is exact for finite floats; epsilon division is an uninterpreted "
                     "function and agreement is claimed for rounding-separated pairs only.",
                tech="deductive verification: loop invariants + postconditions as SMT VCs generated from the real source (pyvc/z3)"),
    "C04": dict(cat="proof", ref="5/C04",
                text="Archive.add is verified against an abstract comparator whose axioms are proved for both concrete comparators; "
                     "the data-structure invariant (members pairwise non-dominated, distinct) and the whole-view postcondition "
                     "(kept members = old members not dominated by the newcomer, plus the newcomer) hold for every history.",
                note=TRUST + " Epsilon instance assumes rounding-separated pairs and positive epsilons.",
                tech="deductive verification: data-structure invariant + delete-while-iterating loop invariant, abstract comparator with refinement obligations (pyvc/z3)"),
    "C20": dict(cat="proof", ref="5/C20",
                text="Individual.__eq__ is proved equal to 'all coordinates within 1e-10' for vectors of any length; symmetry and "
                     "hash congruence are lemmas.",
                note=TRUST + " Subtraction is real subtraction (A1); hash(tuple) is an uninterpreted function of the element sequence.",
                tech="deductive verification: loop invariant + postcondition over symbolic-length vectors (pyvc/z3)"),
    "C05": dict(cat="proof", ref="5/C05",
                text="Job.evaluate, Evaluator.evaluate_serial/evaluate/evaluate_scalar, Algorithm.evaluate, Individual.__init__ / "
                     "calc_signed_costs, the sign loop of Problem.__init__, SweepAlgorithm.run and the SciPy/NLopt bridges are verified "
                     "against a ghost call log of the objective and a ghost per-design evaluation counter: exactly-once evaluation, "
                     "costs belong to the stored vector, signed costs and feasibility marker, for every batch and every path.",
                note=TRUST + " User objective/constraints and external optimisers are assumed contracts; serial evaluation; default surrogate.",
                tech="deductive verification: ghost call log + per-object ghost counters, loop invariants over batches (pyvc/z3)"),
    "C06": dict(cat="proof", ref="5/C06",
                text="All paths of Job.evaluate's retry loop (success, TimeoutError, RuntimeError, other exception, exhaustion) are "
                     "verified with a loop invariant over the attempt counter: failed copies recorded with the failing vector, at most "
                     "five attempts, RuntimeError after five, non-transient exceptions never swallowed, re-rolled designs inside the box "
                     "(gen_vector / gen_number verified over the reals).",
                note=TRUST + " Exceptions other than TimeoutError/RuntimeError are one abstract class; rounding in gen_number is real arithmetic.",
                tech="deductive verification with exceptional postconditions (raises clauses) and ghost counters (pyvc/z3)"),
    "C14": dict(cat="proof", ref="5/C14",
                text="WorstCaseEvaluator.add / GradientEvaluator.add (neighbour designs +-tol resp. +delta along every axis), the "
                     "post-processing of both run() methods (sensitivity = sum of |f(x)-f(neighbour)| appended exactly once before the "
                     "marker; forward-difference gradient) and the reset of the work lists (idle at exit, which is what makes results "
                     "stable across batches) are verified for any dimension and batch; the orchestration in evaluate() is bounded only.",
                note=TRUST + " run() is proved in two sequential region steps; evaluate()'s orchestration is a bounded run-time check.",
                tech="deductive verification: object invariant (idle work lists) + loop invariants with a recursive sum spec (pyvc/z3); bounded run-time check for the orchestration"),
    "C15": dict(cat="other", ref="5/C15",
                text="Partial deductive decision: 12 of the benchmark functions have all three clauses (shape, bound, optimum) discharged "
                     "from loop invariants and elementary-function axioms; the numerically delicate ones are bounded run-time checks only; "
                     "four genuine defects are recorded as known findings (ModifiedEasom odd dimension, EqualityConstr x2, Synthetic5D/10D direction).",
                note=TRUST + " Real arithmetic (A1), elementary-function axioms (A5); bounded parts are never counted as proved.",
                tech="deductive verification (loop invariants, nlsat for polynomials) for 12 functions; bounded run-time contract evaluation for the rest"),
    "C16": dict(cat="proof", ref="5/C16",
                text="For every point of the box and every objective count: DTLZ1 objectives sum to (1+g)/2, DTLZ2-4 objective vectors "
                     "have squared norm (1+g)^2 (telescoping loop invariant; each step needs sin^2+cos^2=1 at the SAME angle, which is "
                     "where a wrong variable index fails), ZDT1 and the bi-objective problem satisfy their defining equations; all "
                     "objectives are non-negative.",
                note=TRUST + " Real arithmetic and elementary-function axioms (A1, A5); frame axioms of recursive spec functions by induction (trusted).",
                tech="deductive verification: telescoping loop invariants over recursive spec functions, polynomial lemmas by nlsat (pyvc/z3)"),
    "C17": dict(cat="proof", ref="5/C17",
                text="The additive epsilon indicator is proved to be the non-negative max-min-max of coordinate differences (with the "
                     "identical-set and shifted-set corollaries as lemmas); population queries return exactly the recorded individuals "
                     "with the tag in recording order (ghost index witness), the default being the largest tag; find_optimum returns a "
                     "recorded individual that is minimal (maximal for a maximised goal); unsorted goal/parameter listings keep each "
                     "individual's values paired. gd() and the sorted listings are bounded / not covered.",
                note=TRUST + " goal_index/parameter_index are assumed contracts; gd is a bounded run-time check only.",
                tech="deductive verification: quantified postconditions with ghost witness sequences; extended reals for inf (pyvc/z3)"),
    "C18": dict(cat="proof", ref="5/C18",
                text="Personal-best update, velocity clamp (speed_constriction and both update_velocity variants), the three "
                     "update_position variants and the three select_leader variants are verified for swarms of any size and dimension: "
                     "postconditions state the exact new position/velocity per coordinate, the clamp bound and the personal-best rule.",
                note=TRUST + " Particles of one batch must have pairwise distinct feature dicts / vector / velocity lists (PSOGA's two "
                     "feature-sharing offspring are outside this precondition). update_global_best is covered as far as the evidence lists.",
                tech="deductive verification: nested-loop invariants with heap frames over the real swarm code (pyvc/z3)"),
    "C19": dict(cat="proof", ref="5/C19",
                text="SurrogateModelEval.evaluate, SurrogateModelPredict.evaluate / evaluate_individual and add_data are verified against "
                     "a ghost call log of the objective: exactly one counter moves per request, predictions only when trained and the "
                     "hook answers, otherwise exactly one true evaluation returned unchanged, appended once, retrained exactly when due.",
                note=TRUST + " Objective, predict hook and train() are assumed contracts (user / subclass code).",
                tech="deductive verification: postconditions over ghost call-log state, all paths incl. exceptional exits (pyvc/z3)"),
    "C03": dict(cat="proof", ref="5/C03",
                text="nondominated_cmp is proved to be the comparison by (front number ascending, crowding distance descending over the "
                     "extended reals) and a total preorder (three lemmas); nondominated_truncate is proved to return min(size, |pool|) "
                     "distinct designs of the de-duplicated pool such that no cut design is better than a kept one; the binary tournament "
                     "never returns the candidate with the worse front number nor, at equal fronts, the dominated one; crowding_distance "
                     "keeps the members, gives boundary members of every objective an infinite distance and every interior member the "
                     "sum of normalised neighbour gaps (per-objective step law), for fronts and pools of any size.",
                note=TRUST + " sorted() with a proved total preorder and list(set()) are library models; float division uninterpreted.",
                tech="deductive verification: total-preorder lemmas, set/sort library models, loop invariants with ghost extreme witnesses (pyvc/z3)"),
    "C02": dict(cat="other", ref="5/C02, 9.4",
                text="Partial: for every population and input order it is PROVED (invariants over all seven loops of the real sorter) that "
                     "front 1 is exactly the non-dominated subset, that no front number is below 1 and that every member of a later front has a "
                     "dominator in the previous front (front number <= true rank); the id lookup, crowding_distance per "
                     "front and consequences of the rank specification are proved as well. 'All dominators lie in earlier fronts' and 'nobody "
                     "unranked' are NOT proved: the complete specification is evaluated on the real function over all order types and input "
                     "orders of n<=3 (quick) / n<=4 (thorough) points of a 3x3 grid plus random populations n<=7 (bounded).",
                note=TRUST + " Later fronts: bounded run-time contract only, never counted as proved.",
                tech="deductive verification of the front-1 clause (nested-loop invariants with weak counter invariants; pyvc/z3) + bounded exhaustive run-time evaluation of the complete rank specification"),
    "C08": dict(cat="proof", ref="5/C08, 9.4",
                text="Operator.clip, polynomial / uniform / non-uniform mutation and simulated binary crossover are verified for every box, "
                     "parent (also on the bounds, coincident parents), probability, distribution index and iteration number: children have the "
                     "parents' dimension, lie inside the box, and every power and division on the way is real-valued and defined (safety "
                     "obligations). gen_number / gen_vector (random designs, 1e-12 / declared precision), the three swarm update_position variants "
                     "the OMOPSO / SMPSO turbulence steps and GeneticAlgorithm.generate (children inside the box) are verified as well. The composition inside the run loops and the "
                     "DoE generators are bounded run-time checks only.",
                note=TRUST + " Real arithmetic; pow axioms; run-level orchestration bounded (objective records every vector).",
                tech="deductive verification: postconditions + safety obligations (division, real-valued power) over the real operators (pyvc/z3, nlsat for the polynomial side conditions); bounded run-time contracts for whole runs"),
    "C09": dict(cat="other", ref="5/C09, 9.4",
                text="Partial: offspring generation (exactly N pairwise different children), the eps-MOEA acceptance step (size kept, replacement "
                     "rule), truncation elitism (C03) and exactly-once evaluation (C05/C06) are proved deductively; the run loops of NSGA-II, "
                     "eps-MOEA, OMOPSO and SMPSO (generation tags, budgets N*G resp. N*(G+1), elitism across generations) are bounded run-time "
                     "contracts on real runs with and without injected transient failures.",
                note=TRUST + " Run loops are NOT proved (bounded only); partial correctness for generate().",
                tech="deductive verification of the step functions (loop invariants, ghost results; pyvc/z3) + bounded run-time evaluation of run-level contracts"),
    "C12": dict(cat="other", ref="5/C12, 9.4",
                text="Partial: the Van der Corput sequence is proved to be the radical inverse of each index for every base and length "
                     "(loop invariant over a recursive spec function), the affine map of unit samples to the bounds, the random generator "
                     "(exactly N in-bounds designs) and the level lists of the uniform generator are proved; the numpy parts (LHS "
                     "stratification, prime bases and burn-in of Halton, grid completeness through itertools.product) are bounded "
                     "run-time contracts against independent references.",
                note=TRUST + " numpy code is outside the subset: those clauses are bounded only.",
                tech="deductive verification (loop invariants, recursive spec function, region contract; pyvc/z3) + bounded run-time contract evaluation for the numpy parts"),
    "C10": dict(cat="other", ref="5/C10, 9.4",
                text="Partial: the statement / commit discipline of SqliteDataStore.sync_individual and sync_all is proved against an abstract "
                     "sqlite3 connection with ghost counters (the upsert text is read from the real source); the JSON / SQLite round trip itself "
                     "is a bounded run-time contract on real files (special floats bit-exact, numpy scalars, nested custom data, re-synchronised "
                     "ids, completeness after runs).",
                note=TRUST + " json and sqlite3 are external libraries: their behaviour is assumed for the proof and exercised only by the bounded part.",
                tech="deductive verification of call sequences against an abstract sqlite3 model with ghost state (pyvc/z3) + bounded run-time round trips through real SQLite files"),
    "C11": dict(cat="other", ref="5/C11, 9.4",
                text="Partial: proved that a design reaches the store only when its evaluation is complete (call-site precondition in Job.evaluate) and "
                     "that sync_individual returns only after its upsert is committed with nothing pending (all paths incl. retry); with SQLite's atomic "
                     "commit (assumed) this gives durability of every synchronised design and no partial rows. Readability after process death is a "
                     "bounded crash exploration (os._exit at every objective call and before/after every execute and commit of a small serial run).",
                note=TRUST + " SQLite atomicity is assumed; crash points are enumerated for one small configuration only (bounded).",
                tech="deductive verification of the ordering contracts (ghost pending-statement counter; pyvc/z3) + bounded crash-point enumeration on the real code"),
    "C13": dict(cat="exploration", ref="5/C13, 9.4",
                text="BOUNDED, not proved: the combinatorial structure of full-factorial, Plackett-Burman (complete over the supported factor "
                     "counts 1..23), Box-Behnken (3..8 factors) and generalized subset designs is evaluated at run time on the real generators "
                     "against independent constructions.",
                note=TRUST + " numpy code outside the subset: no deductive claim for this property.",
                tech="bounded run-time contract evaluation against independent reference constructions (stand-in; no deductive obligations)"),
}
NA = {
    "C07": "quantifies over thread interleavings; the contract verifier has sequential semantics only and no installed tool gives "
           "Python a concurrent program logic (DESIGN.md section 5, C07)",
}

checks = []
na = []
for p in props:
    pid = p["id"]
    if pid in CLAIMED:
        c = CLAIMED[pid]
        checks.append({
            "property_id": pid,
            "quick_cmd": "python3-vt -m pyvc check %s --tier quick" % pid,
            "thorough_cmd": "python3-vt -m pyvc check %s --tier thorough" % pid,
            "evidence_file": "evidence/%s.json" % pid,
            "replay_cmd_template": "python3-vt -m pyvc replay {path}",
            "engine": "pyvc",
            "level_claimed": {"category": c["cat"], "text": c["text"], "design_ref": "DESIGN.md " + c["ref"]},
            "level_note": c["note"],
            "technique": c["tech"],
        })
    else:
        na.append({"property_id": pid, "reason": NA.get(pid, "check not built yet (build in progress, see DESIGN.md section 8)")})

m = {
    "version": 1,
    "setup_cmd": "python3-vt tools/setup_check.py",
    "hooks": {"guard": "ARTAP_VERIF",
              "enable": "no hooks: contracts are sidecars under /verif/contracts; /repo is only read (guard name reserved, unused)",
              "baseline_off_cmd": "cd /repo && /venv/bin/python -m pytest -ra -q -p no:cacheprovider --timeout=900 --continue-on-collection-errors",
              "source_commits": [], "add_only": True},
    "engines": [{"name": "pyvc", "path": "pyvc/", "serves_properties": sorted(CLAIMED),
                 "kind_free_text": "verification-condition generator for a Python subset (AST of the real source + sidecar contracts) "
                                   "discharged by z3/cvc5; run-time twin of the same contract text under /venv for replays and bounded stand-ins"}],
    "checks": checks,
    "not_applicable": na,
    "notes": "contract-based deductive verification; see DESIGN.md. Exit codes: 0 held, 1 violation, 2 undecided, 3 checker error.",
}
json.dump(m, open(os.path.join(HERE, "MANIFEST.json"), "w"), indent=1)
print("claimed", sorted(CLAIMED), "n/a", len(na))

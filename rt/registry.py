SCENARIOS = {}


def scenario(target, bound=""):
    """register a generator  gen(rng, tier) -> iterable of cases;  a case is a dict:
       {'call': callable(**args) -> result, 'args': {...}, 'label': short description, 'extra': {spec names}}"""
    def deco(fn):
        SCENARIOS.setdefault(target, []).append((fn, bound))
        return fn
    return deco

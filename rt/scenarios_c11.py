"""C11 (bounded): kill the writer at every enumerated event of a small run, reopen the file in a fresh view."""
import json
import os
import shutil
import subprocess
import sys
import tempfile
from rt.registry import scenario

HERE = os.path.dirname(os.path.abspath(__file__))


def _run_child(k, mode="serial"):
    d = tempfile.mkdtemp(prefix="pyvc-c11-")
    db, log = os.path.join(d, "db.sqlite"), os.path.join(d, "log.txt")
    try:
        env = dict(os.environ)
        env["PYTHONWARNINGS"] = "ignore"
        hung = False
        try:
            subprocess.run([sys.executable, os.path.join(HERE, "crash_child.py"), db, log, str(k), mode], env=env,
                           stdout=subprocess.DEVNULL, stderr=subprocess.DEVNULL, timeout=90)
        except subprocess.TimeoutExpired:
            hung = True         # the writer neither finished nor reached the crash point (e.g. it waits on its own lock)
        lines = open(log).read().split("\n") if os.path.exists(log) else []
        synced = [int(l.split()[1]) for l in lines if l.startswith("synced ")]
        total = next((int(l.split()[1]) for l in lines if l.startswith("finished ")), None)
        out = {"opened": False, "error": "", "synced": synced, "row_ids": [], "bad_rows": [], "total_events": total}
        if hung:
            out["error"] = "writer hung (no progress for 90 s)"
            return out
        if not os.path.exists(db):
            out["opened"] = not synced          # killed before the file existed: nothing can have been synchronised
            return out
        try:
            import logging
            from artap.problem import ProblemViewDataStore
            import sqlite3
            if os.path.getsize(db) == 0 and not synced:
                out["opened"] = True
                return out
            con = sqlite3.connect(db)
            tables = [r[0] for r in con.execute("SELECT name FROM sqlite_master WHERE type='table'").fetchall()]
            if "main" not in tables or not con.execute("SELECT * FROM main").fetchall():
                # killed while the structure was being created: no synchronisation can have returned yet
                out["opened"] = not synced
                con.close()
                return out
            rows = con.execute("SELECT id, individual FROM individuals").fetchall()
            con.close()
            view = ProblemViewDataStore(database_name=db)
            view.logger.setLevel(logging.CRITICAL)
            out["opened"] = True
            out["row_ids"] = [r[0] for r in rows]
            for rid, text in rows:
                try:
                    doc = json.loads(text)
                    v, c = doc["vector"], doc["costs"]
                    ok = doc["id"] == rid and len(c) == 2 and abs(c[0] - (v[0] ** 2 + v[1])) < 1e-12 and abs(c[1] - ((v[0] - 1) ** 2 - v[1])) < 1e-12
                except Exception:
                    ok = False
                if not ok:
                    out["bad_rows"].append(rid)
        except Exception as e:
            out["error"] = "%s: %s" % (type(e).__name__, e)
        return out
    finally:
        shutil.rmtree(d, ignore_errors=True)


@scenario("artap.datastore:SqliteDataStore.sync_individual#crash",
          bound="one NSGA-II run (N=3, G=2, serial): death at every event (objective call, before/after each execute and commit); "
                "quick tier: every 6th event")
def crash(rng, tier):
    total = _run_child(0)["total_events"] or 40      # (a writer that cannot finish is reported by the first cases)
    step = 6 if tier == "quick" else 1
    for k in range(1, total + 1, step):
        yield {"call": lambda k: _run_child(k), "args": {"k": k}, "label": "kill at event %d of %d" % (k, total)}
    yield {"call": lambda k: _run_child(k), "args": {"k": 0}, "label": "no kill (%d events)" % total}

"""Input families for the bounded run-time evaluation of the contracts of C08 / C09 (variation operators, offspring generation,
steady-state acceptance)."""
import math
from rt.registry import scenario

_EXTRA = {"acmp": lambda c_, p, q: c_.compare(p, q), "cmp_ok": lambda c_, p, q: True,
          "is_inf": lambda v: math.isinf(v), "fin": lambda v: v}

BOXES = [[(0.0, 1.0)], [(-5.0, -1.0), (0.0, 1e-9)], [(-1e6, 1e6), (2.0, 3.0), (-1.0, 1.0)], [(0.0, 1.0), (0.0, 1.0)]]


def _params(box):
    return [{'name': 'x%d' % i, 'bounds': [lo, hi]} for i, (lo, hi) in enumerate(box)]


def _point(rng, box):
    """inside the box; often exactly on a bound or next to it"""
    out = []
    for lo, hi in box:
        r = rng.random()
        out.append(lo if r < 0.2 else hi if r < 0.4 else lo + (hi - lo) * 1e-12 if r < 0.5 else lo + (hi - lo) * rng.random())
    return out


def _mut_cases(make, method, rng, tier, with_iter=False):
    for k in range(300 if tier == "quick" else 5000):
        box = rng.choice(BOXES)
        m = make(_params(box), rng)
        p = _point(rng, box)
        args = {"self": m, "parent": p}
        if with_iter:
            args["current_iteration"] = rng.choice([0, m.max_iterations, rng.randint(0, m.max_iterations)])
            call = lambda self, parent, current_iteration: self.mutate(parent, current_iteration)
        else:
            call = lambda self, parent: self.mutate(parent)
        yield {"call": call, "args": args, "label": "%r|%r|%r" % (box, p, args.get("current_iteration"))}


@scenario("artap.operators:PmMutator.mutate", bound="random parents (on / next to bounds included) in 4 boxes (negative, tiny, huge ranges), probability 0.5 / 1")
def pm_mutate(rng, tier):
    from artap.operators import PmMutator
    return _mut_cases(lambda ps, r: PmMutator(ps, r.choice([0.5, 1.0]), r.choice([0, 1, 20])), "mutate", rng, tier)


@scenario("artap.operators:UniformMutator.mutate", bound="as PmMutator.mutate")
def uni_mutate(rng, tier):
    from artap.operators import UniformMutator
    return _mut_cases(lambda ps, r: UniformMutator(ps, r.choice([0.5, 1.0]), r.choice([0.5, 10.0])), "mutate", rng, tier)


@scenario("artap.operators:NonUniformMutation.mutate", bound="as PmMutator.mutate; iterations 0, max and in between")
def nonuni_mutate(rng, tier):
    from artap.operators import NonUniformMutation
    return _mut_cases(lambda ps, r: NonUniformMutation(ps, r.choice([0.5, 1.0]), r.choice([1, 10, 100]), r.choice([0.5, 2.0])),
                      "mutate", rng, tier, with_iter=True)


@scenario("artap.operators:SimulatedBinaryCrossover.cross", bound="random parent pairs incl. coincident / almost coincident / on bounds, 4 boxes")
def sbx(rng, tier):
    from artap.operators import SimulatedBinaryCrossover
    for k in range(300 if tier == "quick" else 5000):
        box = rng.choice(BOXES)
        c = SimulatedBinaryCrossover(_params(box), rng.choice([0.9, 1.0]), rng.choice([0, 1, 15]))
        p1 = _point(rng, box)
        r = rng.random()
        p2 = list(p1) if r < 0.15 else [min(hi, v + (hi - lo) * 1e-14) for v, (lo, hi) in zip(p1, box)] if r < 0.3 else _point(rng, box)
        yield {"call": lambda self, p1, p2: self.cross(p1, p2), "args": {"self": c, "p1": p1, "p2": p2}, "label": "%r|%r|%r" % (box, p1, p2)}


def _nsga(rng, n, box):
    import logging
    from artap.problem import Problem
    from artap.algorithm_genetic import GeneticAlgorithm as NSGAII
    from artap.operators import SimulatedBinaryCrossover, PmMutator, TournamentSelector
    from artap.individual import Individual

    class P(Problem):
        def set(self):
            self.parameters = _params(box)
            self.costs = [{'name': 'f1'}, {'name': 'f2'}]

        def evaluate(self, individual):
            return [sum(individual.vector), -individual.vector[0]]
    p = P()
    p.logger.setLevel(logging.CRITICAL)
    a = NSGAII(p)
    a.options['max_population_size'] = n
    a.options['verbose_level'] = 0
    a.crossover = SimulatedBinaryCrossover(p.parameters, 0.9)
    a.mutator = PmMutator(p.parameters, 0.5)
    a.selector = TournamentSelector(p.parameters)
    pop = []
    for _ in range(rng.randint(1, 6)):
        x = Individual(_point(rng, box))
        c = p.evaluate(x)
        x.costs = list(c)
        x.costs_signed = list(c) + [0]
        x.features['front_number'] = rng.randint(1, 3)
        x.features['crowding_distance'] = rng.choice([0.0, 1.0, math.inf])
        pop.append(x)
    return a, pop


@scenario("artap.algorithm_genetic:GeneticAlgorithm.generate", bound="population sizes 2..7, 1-6 parents (repeated designs included), 4 boxes")
def generate(rng, tier):
    for k in range(60 if tier == "quick" else 1500):
        box = rng.choice(BOXES)
        a, pop = _nsga(rng, rng.randint(2, 7), box)
        if rng.random() < 0.3 and len(pop) > 1:
            pop[1].vector = list(pop[0].vector)
        yield {"call": lambda self, parents, archive: self.generate(parents, archive), "args": {"self": a, "parents": pop, "archive": None},
               "extra": dict(_EXTRA, vec_close=lambda x, y: len(x.vector) == len(y.vector) and all(abs(u - v) < 1e-10 for u, v in zip(x.vector, y.vector))),
               "label": "%d|%r|%r" % (a.options['max_population_size'], box, [x.vector for x in pop])}


@scenario("artap.operators:Selector.pop_acceptance", bound="populations of 1..5 members over a 3x3 cost grid, every offspring of the grid")
def pop_acceptance(rng, tier):
    import itertools
    from artap.operators import TournamentSelector
    from artap.individual import Individual
    pts = [(a, b) for a in (0.0, 1.0, 2.0) for b in (0.0, 1.0, 2.0)]
    s = TournamentSelector(_params([(0.0, 1.0)]))
    for k in range(400 if tier == "quick" else 6000):
        n = rng.randint(1, 5)
        pop = []
        for _ in range(n):
            c = rng.choice(pts)
            x = Individual([rng.choice([0.0, 0.5, 1.0])])
            x.costs_signed = list(c) + [0]
            pop.append(x)
        c = rng.choice(pts)
        y = Individual([rng.choice([0.0, 0.5, 1.0])])
        y.costs_signed = list(c) + [0]
        before = list(pop)

        def witness(args, result, before=before):
            now = args["individuals"]
            for k in range(len(before)):
                if now[:-1] == before[:k] + before[k + 1:] and all(a is b for a, b in zip(now[:-1], before[:k] + before[k + 1:])):
                    return {"gk": k}
            return {"gk": 0}
        yield {"call": lambda self, individuals, individual: self.pop_acceptance(individuals, individual),
               "args": {"self": s, "individuals": pop, "individual": y}, "extra": _EXTRA, "post_extra": witness,
               "label": "%r|%r" % ([x.costs_signed for x in pop], y.costs_signed)}


def _swarm_algo(cls, box):
    import logging
    import importlib
    from artap.problem import Problem

    class P(Problem):
        def set(self):
            self.parameters = _params(box)
            self.costs = [{'name': 'f1'}, {'name': 'f2'}]

        def evaluate(self, individual):
            return [sum(individual.vector), -individual.vector[0]]
    p = P()
    p.logger.setLevel(logging.CRITICAL)
    a = getattr(importlib.import_module("artap.algorithm_swarm"), cls)(p)
    a.options['verbose_level'] = 0
    return a


def _turbulence(cls):
    def gen(rng, tier):
        from artap.individual import Individual
        from artap.operators import PmMutator
        for k in range(40 if tier == "quick" else 600):
            box = rng.choice(BOXES)
            a = _swarm_algo(cls, box)
            if cls == "SMPSO":
                a.mutator = PmMutator(a.problem.parameters, 1.0)
            swarm = [Individual(_point(rng, box)) for _ in range(rng.randint(0, 8))]
            step = rng.choice([0, 1, a.options['max_population_number']])
            yield {"call": lambda self, particles, current_step: self.turbulence(particles, current_step),
                   "args": {"self": a, "particles": swarm, "current_step": step},
                   "label": "%s box=%r step=%d %r" % (cls, box, step, [x.vector for x in swarm])}
    gen.__name__ = "turbulence_" + cls
    return gen


scenario("artap.algorithm_swarm:OMOPSO.turbulence", bound="swarms of <= 8 particles (on / next to bounds included), 4 boxes, steps 0, 1, max")(_turbulence("OMOPSO"))
scenario("artap.algorithm_swarm:SMPSO.turbulence", bound="as OMOPSO.turbulence")(_turbulence("SMPSO"))

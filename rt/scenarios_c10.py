"""C10 (bounded): round trips through a real SQLite file."""
import json
import logging
import math
import os
import shutil
import struct
import tempfile
from rt.registry import scenario


def exact_eq(a, b):
    """structural equality; floats must be bit-identical (numpy scalars count as the floats they are)"""
    if isinstance(a, bool) or isinstance(b, bool):
        return type(a) is type(b) and a == b
    if isinstance(a, float) or isinstance(b, float):
        try:
            return struct.pack("<d", float(a)) == struct.pack("<d", float(b))
        except (TypeError, ValueError):
            return False
    if isinstance(a, (list, tuple)) and isinstance(b, (list, tuple)):
        return len(a) == len(b) and all(exact_eq(x, y) for x, y in zip(a, b))
    if isinstance(a, dict) and isinstance(b, dict):
        return set(a) == set(b) and all(exact_eq(a[k], b[k]) for k in a)
    return a == b


def _expected(x):
    """what a reader must see for x: individuals inside feature values are replaced by their ids, tuples become lists"""
    def rep(v):
        from artap.individual import Individual
        if isinstance(v, Individual):
            return v.id
        if isinstance(v, (list, tuple)):
            return [rep(i) for i in v]
        return v
    return {"vector": [float(v) for v in x.vector], "costs": [float(v) for v in x.costs],
            "costs_signed": [v if isinstance(v, (bool, int)) else float(v) for v in x.costs_signed],
            "population_id": x.population_id, "custom": json.loads(json.dumps(x.custom)),
            "features": {k: rep(v) for k, v in x.features.items()}}


FLOATS = [0.0, -0.0, 0.1 + 0.2, 1e-300, 1.7976931348623157e308, 5e-324, -2.5, 1 / 3, math.inf, -math.inf, 123456789.123456789]


def _problem(dbname, thread_safe=True):
    from artap.problem import Problem
    from artap.datastore import SqliteDataStore

    class P(Problem):
        def set(self):
            self.name = "roundtrip problem"
            # declaration order differs from the lexicographic order of the names (x_2 before x_10, weight before efficiency)
            self.parameters = [{'name': 'x_2', 'bounds': [-1.5, 2.5], 'initial_value': 0.1}, {'name': 'x_10', 'bounds': [0, 1e-9], 'precision': 1e-3}]
            self.costs = [{'name': 'weight', 'criteria': 'minimize'}, {'name': 'efficiency', 'criteria': 'maximize'}]

        def evaluate(self, individual):
            return [sum(individual.vector), individual.vector[0] * 0.1]
    p = P()
    p.logger.setLevel(logging.CRITICAL)
    p.data_store = SqliteDataStore(p, database_name=dbname, mode="write", thread_safe=thread_safe)
    return p


def _reopen(dbname):
    import sqlite3
    from artap.problem import ProblemViewDataStore
    view = ProblemViewDataStore(database_name=dbname)
    view.logger.setLevel(logging.CRITICAL)
    con = sqlite3.connect(dbname)
    rows = con.execute("SELECT id, individual FROM individuals").fetchall()
    con.close()
    return view, rows


def _individual(rng, pool):
    import numpy as np
    from artap.individual import Individual
    f = lambda: rng.choice(FLOATS + [rng.uniform(-1e3, 1e3), rng.random()])
    x = Individual([f() if rng.random() < 0.8 else np.float64(f()) for _ in range(rng.randint(1, 4))])
    x.costs = [f() for _ in range(rng.randint(0, 3))]
    x.costs_signed = [(-c if rng.random() < 0.5 else c) for c in x.costs] + [rng.choice([0, 0.0, 1, 2.5, True])]
    x.population_id = rng.randint(-1, 5)
    x.custom = rng.choice([{}, {"note": "ok", "nested": {"k": [1, 2.5, None, "s"], "t": True}}, {"path": "/tmp/x", "vals": [f() for _ in range(2)]}])
    x.features.update({"front_number": rng.choice([None, 1, 3]), "crowding_distance": rng.choice([0.0, 0.25, math.inf]),
                       "dominate": [rng.randint(0, 50) for _ in range(rng.randint(0, 3))], "domination_counter": rng.randint(0, 4),
                       "velocity": [f() for _ in x.vector], "best_costs": list(x.costs), "feasible": rng.choice([0.0, True, False])})
    if pool and rng.random() < 0.5:
        x.parents = [rng.choice(pool)]
        rng.choice(pool).children.append(x)
        x.features["best_neighbour"] = rng.choice(pool)      # an Individual inside a feature value
        x.features["neighbours"] = (rng.choice(pool), 1.5)
    return x


@scenario("artap.datastore:SqliteDataStore.sync_individual#roundtrip",
          bound="histories of <= 12 sync_individual / sync_all calls over <= 6 individuals (special floats, numpy scalars, nested custom "
                "data, parent/child references, re-synchronised ids)")
def roundtrip(rng, tier):
    for k in range(40 if tier == "quick" else 800):
        d = tempfile.mkdtemp(prefix="pyvc-c10-")
        dbname = os.path.join(d, "db.sqlite")
        p = _problem(dbname, thread_safe=(k % 3 != 2))        # every third history uses the cached-connection mode
        pool, expected = [], {}
        steps = rng.randint(1, 12)

        def run(self, p=p, pool=pool, expected=expected, steps=steps, dbname=dbname, d=d, seed=rng.randint(0, 10 ** 9)):
            import random
            r = random.Random(seed)
            try:
                for _ in range(steps):
                    op = r.random()
                    if op < 0.55 or not pool:
                        x = _individual(r, pool)
                        pool.append(x)
                        p.individuals.append(x)
                        p.data_store.sync_individual(x)
                        expected[x.id] = _expected(x)
                    elif op < 0.85:
                        x = r.choice(pool)                      # same id again, changed data: last wins
                        x.costs = [c + 1.0 if math.isfinite(c) else c for c in x.costs] or [r.choice(FLOATS)]
                        x.features["crowding_distance"] = r.choice([math.inf, 0.125])
                        p.data_store.sync_individual(x)
                        expected[x.id] = _expected(x)
                    else:
                        for x in pool:
                            x.population_id += 1
                        if r.random() < 0.4:
                            # a second recorded individual that carries an id already in use (a continued run re-uses ids):
                            # the last one recorded wins
                            y = _individual(r, pool)
                            y.id = r.choice(pool).id
                            pool.append(y)
                            p.individuals.append(y)
                        p.data_store.sync_all()
                        for x in p.individuals:
                            expected[x.id] = _expected(x)
                view, rows = _reopen(dbname)
                return {"view": view, "rows": rows, "expected": expected, "problem": p}
            finally:
                shutil.rmtree(d, ignore_errors=True)
        yield {"call": run, "args": {"self": p.data_store}, "extra": {"exact_eq": exact_eq}, "label": "history #%d steps=%d" % (k, steps)}


@scenario("artap.datastore:SqliteDataStore.sync_all#after_run", bound="NSGAII / EpsMOEA / SMPSO runs with N<=4, G<=3 and an SQLite store")
def after_run(rng, tier):
    import importlib
    algos = [("artap.algorithm_NSGAII", "NSGAII"), ("artap.algorithm_genetic", "EpsMOEA"), ("artap.algorithm_swarm", "SMPSO")]
    for k in range(6 if tier == "quick" else 60):
        d = tempfile.mkdtemp(prefix="pyvc-c10-")
        dbname = os.path.join(d, "db.sqlite")
        p = _problem(dbname)
        mod, cls = algos[k % len(algos)]
        a = getattr(importlib.import_module(mod), cls)(p)
        a.options['max_population_size'] = rng.choice([2, 4])
        a.options['max_population_number'] = rng.choice([1, 2, 3])
        a.options['verbose_level'] = 0
        a.options['max_processes'] = 1

        def run(self, a=a, p=p, dbname=dbname, d=d):
            try:
                a.run()
                view, rows = _reopen(dbname)
                return {"view": view, "rows": rows, "expected": {x.id: _expected(x) for x in p.individuals}, "problem": p}
            finally:
                shutil.rmtree(d, ignore_errors=True)
        yield {"call": run, "args": {"self": p.data_store}, "extra": {"exact_eq": exact_eq}, "label": "%s #%d" % (cls, k)}

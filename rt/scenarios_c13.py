"""C13 (bounded): factorial and screening designs checked against independent constructions of their defining structure."""
import itertools
from rt.registry import scenario


def _params(box):
    return [{'name': 'x%d' % i, 'bounds': [lo, hi]} for i, (lo, hi) in enumerate(box)]


def _box(rng, n):
    out = []
    for i in range(n):
        lo = rng.choice([-5.0, 0.0, 1.0, 10.0]) + i
        out.append((lo, lo + rng.choice([0.5, 1.0, 20.0])))
    return out


def _bb(parameters):
    n = len(parameters)
    mid = [(p['bounds'][0] + p['bounds'][1]) / 2.0 for p in parameters]
    runs = {tuple(float(m) for m in mid)}
    for i, j in itertools.combinations(range(n), 2):
        for a in (0, 1):
            for b in (0, 1):
                r = list(mid)
                r[i] = parameters[i]['bounds'][a]
                r[j] = parameters[j]['bounds'][b]
                runs.add(tuple(float(c) for c in r))
    return runs


def _gsd_ok(levels, reduction, n, result):
    full = set(itertools.product(*[range(l) for l in levels]))
    designs = [result] if n == 1 else list(result)
    sets = []
    for d in designs:
        rows = [tuple(int(c) for c in r) for r in d]
        if len(set(rows)) != len(rows) or not set(rows) <= full:
            return False
        sets.append(set(rows))
    for a, b in itertools.combinations(sets, 2):
        if a & b:
            return False
    if n == reduction and set().union(*sets) != full:
        return False
    return True


_X = {"itertools": itertools, "ghost_bb": _bb, "ghost_gsd_ok": _gsd_ok}


@scenario("artap.operators:FullFactorGenerator.generate", bound="1..5 parameters, with and without centre level")
def fullfact(rng, tier):
    import artap.operators as ops
    for n in range(1, 6):
        for center in (False, True):
            g = ops.FullFactorGenerator(_params(_box(rng, n)))
            g.init(center)
            yield {"call": lambda self: self.generate(), "args": {"self": g}, "extra": _X, "label": "n=%d center=%s" % (n, center)}


@scenario("artap.operators:FullFactorLevelsGenerator.generate", bound="1..4 parameters, 1..4 arbitrary levels each")
def fullfact_levels(rng, tier):
    import artap.operators as ops
    for k in range(12 if tier == "quick" else 150):
        n = rng.randint(1, 4)
        values = [sorted(rng.sample([-3.0, -1.0, 0.0, 0.5, 2.0, 7.0, 11.0], rng.randint(1, 4))) for _ in range(n)]
        g = ops.FullFactorLevelsGenerator(_params(_box(rng, n)))
        g.init(values)
        yield {"call": lambda self: self.generate(), "args": {"self": g}, "extra": _X, "label": "values=%r" % (values,)}
    # long sweeps: a factor with more levels than fit into a small integer type
    for nlev in (130, 300):
        values = [[float(i) for i in range(nlev)], [0.0, 1.0, 2.0]]
        g = ops.FullFactorLevelsGenerator(_params(_box(rng, 2)))
        g.init(values)
        yield {"call": lambda self: self.generate(), "args": {"self": g}, "extra": _X, "label": "levels=%d x 3" % nlev}


@scenario("artap.operators:PlackettBurmanGenerator.generate", bound="every supported factor count 1..23 (complete)")
def pb(rng, tier):
    import artap.operators as ops
    for n in range(1, 24):
        g = ops.PlackettBurmanGenerator(_params(_box(rng, n)))
        yield {"call": lambda self: self.generate(), "args": {"self": g}, "extra": _X, "label": "n=%d" % n}


@scenario("artap.operators:BoxBehnkenGenerator.generate", bound="3..8 factors (quick 3..6)")
def bb(rng, tier):
    import artap.operators as ops
    for n in range(3, 7 if tier == "quick" else 9):
        g = ops.BoxBehnkenGenerator(_params(_box(rng, n)))
        yield {"call": lambda self: self.generate(), "args": {"self": g}, "extra": _X, "label": "n=%d" % n}


@scenario("artap.doe:build_gsd", bound="2..4 factors with 2..5 levels, reductions 2..4, n = 1 and n = reduction")
def gsd(rng, tier):
    from artap.doe import build_gsd
    seen = set()
    for k in range(25 if tier == "quick" else 300):
        levels = [rng.randint(2, 5) for _ in range(rng.randint(2, 4))]
        red = rng.randint(2, min(4, min(levels)) if min(levels) >= 2 else 2)
        n = rng.choice([1, red])
        key = (tuple(levels), red, n)
        if key in seen:
            continue
        seen.add(key)
        yield {"call": lambda levels, reduction, n: build_gsd(levels, reduction, n), "args": {"levels": levels, "reduction": red, "n": n},
               "extra": _X, "label": "levels=%r reduction=%d n=%d" % (levels, red, n)}

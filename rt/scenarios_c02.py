"""Input families for the bounded run-time evaluation of the contracts of C02 (non-dominated sorting) and C03 (selection)."""
import itertools
import math
from rt.registry import scenario

_EXTRA = {"acmp": lambda c_, p, q: c_.compare(p, q), "cmp_ok": lambda c_, p, q: True,
          "is_inf": lambda v: math.isinf(v), "fin": lambda v: v}


def _mk(costs, vector=None):
    from artap.individual import Individual
    x = Individual(vector if vector is not None else [float(c) for c in costs[:-1]])
    x.costs_signed = list(costs)
    x.costs = [float(c) for c in costs[:-1]]
    return x


def _selector(kind="dummy"):
    from artap.operators import DummySelector, TournamentSelector
    from artap.problem import Problem

    class P(Problem):
        def set(self):
            self.parameters = [{'name': 'x', 'bounds': [0, 1]}, {'name': 'y', 'bounds': [0, 1]}]
            self.costs = [{'name': 'f1'}, {'name': 'f2'}]

        def evaluate(self, individual):
            return [0.0, 0.0]
    p = P()
    if kind == "tournament":
        return TournamentSelector(p.parameters)
    return DummySelector(p.parameters)


def _populations(rng, tier):
    """ALL populations (sequences, so every input order) of n cost vectors over the 3x3 grid: every order type of n points in the
    plane with <= 3 levels per objective occurs; n <= 3 (quick) / n <= 4 (thorough); then random larger ones with 3 objectives and
    infeasibility markers"""
    pts = [(a, b) for a in (0.0, 1.0, 2.0) for b in (0.0, 1.0, 2.0)]
    top = 3 if tier == "quick" else 4
    for n in range(0, top + 1):
        for combo in itertools.product(pts, repeat=n):
            yield [list(c) + [0] for c in combo]
    if tier == "quick":
        for _ in range(400):
            yield [list(rng.choice(pts)) + [0] for _ in range(4)]
    for _ in range(300 if tier == "quick" else 4000):
        n = rng.randint(2, 7)
        m = rng.randint(1, 3)
        yield [[float(rng.randint(0, 3)) for _ in range(m)] + [rng.choice([0, 0, 0, 1, 2])] for _ in range(n)]


@scenario("artap.operators:Selector.fast_nondominated_sorting",
          bound="exhaustive: every sequence of n<=3 (quick) / n<=4 (thorough) points of the 3x3 grid (all order types, all input "
                "orders); random n<=7, m<=3, infeasibility markers")
def sorting(rng, tier):
    s = _selector()
    k = 0
    for costs in _populations(rng, tier):
        pop = [_mk(c) for c in costs]
        yield {"call": lambda self, individuals: self.fast_nondominated_sorting(individuals), "args": {"self": s, "individuals": pop},
               "extra": _EXTRA, "label": repr(costs)}
        k += 1
        if len(pop) >= 2 and k % 7 == 0:
            # the SAME selector sorts a snapshot of that population next: same ids, different objects, different order
            # (nothing the first call left behind may leak into the second)
            import copy
            snap = copy.deepcopy(pop)
            rng.shuffle(snap)
            yield {"call": lambda self, individuals: self.fast_nondominated_sorting(individuals), "args": {"self": s, "individuals": snap},
                   "extra": _EXTRA, "label": "snapshot of " + repr([x.costs_signed for x in snap])}


scenario("artap.operators:Selector.fast_nondominated_sorting#front1", bound="as fast_nondominated_sorting (replay search for the proved clauses)")(sorting)


@scenario("artap.operators:Selector.individual", bound="lookups of present / absent ids in populations of size <= 4")
def lookup(rng, tier):
    s = _selector()
    for n in range(0, 5):
        pop = [_mk([0.0, 0.0, 0]) for _ in range(n)]
        ids = [x.id for x in pop] + [-1, 10 ** 9]
        for i in ids:
            yield {"call": lambda self, polulation, id: self.individual(polulation, id), "args": {"self": s, "polulation": pop, "id": i},
                   "label": "%d|%r" % (n, i)}


@scenario("artap.operators:nondominated_cmp", bound="all pairs over fronts {1,2,3} x distances {0, 0.5, 2, inf}")
def ncmp(rng, tier):
    from artap.operators import nondominated_cmp
    vals = [(f, d) for f in (1, 2, 3) for d in (0.0, 0.5, 2.0, math.inf)]
    for a in vals:
        for b in vals:
            p, q = _mk([0.0, 0.0, 0]), _mk([0.0, 0.0, 0])
            p.features.update(front_number=a[0], crowding_distance=a[1])
            q.features.update(front_number=b[0], crowding_distance=b[1])
            yield {"call": lambda p, q: nondominated_cmp(p, q), "args": {"p": p, "q": q}, "extra": _EXTRA, "label": "%r|%r" % (a, b)}


def _ranked_pool(rng, n, dup=True):
    pool = []
    for _ in range(n):
        if dup and pool and rng.random() < 0.3:
            src = rng.choice(pool)
            v = [c + rng.choice([0.0, 0.0, 5e-11, 1e-8]) for c in src.vector]      # equal, within tolerance, or different by 1e-8
        else:
            v = [float(rng.randint(0, 3)), float(rng.randint(0, 3))]
        x = _mk([v[0], v[1], 0], list(v))
        x.features.update(front_number=rng.randint(1, 3), crowding_distance=rng.choice([0.0, 0.5, 1.0, 2.0, math.inf]))
        pool.append(x)
    return pool


@scenario("artap.operators:nondominated_truncate", bound="random ranked pools of size <= 8 with repeated / near-equal designs, every size 0..n+1")
def truncate(rng, tier):
    from artap.operators import nondominated_truncate
    for _ in range(150 if tier == "quick" else 2500):
        n = rng.randint(0, 8)
        pool = _ranked_pool(rng, n)
        size = rng.randint(0, n + 1)
        yield {"call": lambda population, size: nondominated_truncate(population, size), "args": {"population": pool, "size": size},
               "extra": dict(_EXTRA, vec_close=lambda a, b: len(a.vector) == len(b.vector) and all(abs(x - y) < 1e-10 for x, y in zip(a.vector, b.vector))),
               "post_extra": lambda args, result: {"uniq": list(set(args["population"]))},
               "label": "%r|%d" % ([(x.vector, x.features['front_number'], x.features['crowding_distance']) for x in pool], size)}


@scenario("artap.operators:TournamentSelector.select", bound="random ranked populations of size <= 6; the drawn pair is recorded from random.sample")
def tournament(rng, tier):
    import artap.operators as ops
    s = _selector("tournament")
    for _ in range(200 if tier == "quick" else 3000):
        n = rng.randint(1, 6)
        pop = _ranked_pool(rng, n, dup=False)
        rec = {}

        def call(self, individuals, rec=rec):
            real = ops.random.sample

            def spy(seq, k):
                out = real(seq, k)
                rec["pair"] = list(out)
                return out
            ops.random.sample = spy
            try:
                return self.select(individuals)
            finally:
                ops.random.sample = real
        yield {"call": call, "args": {"self": s, "individuals": pop}, "extra": _EXTRA,
               "post_extra": lambda args, result, rec=rec: {"cand_a": rec.get("pair", [None, None])[0], "cand_b": rec.get("pair", [None, None])[1]},
               "label": repr([(x.costs_signed, x.features['front_number']) for x in pop])}


def _cd_witness(args, result):
    f = args["front"]
    if len(f) < 3:
        return {"gmin": [], "gmax": []}
    k = len(f[0].costs_signed) - 1
    gmin, gmax = [], []
    for d in range(k):
        lo = min(x.costs_signed[d] for x in f)
        hi = max(x.costs_signed[d] for x in f)
        cl = [x for x in f if x.costs_signed[d] == lo]
        ch = [x for x in f if x.costs_signed[d] == hi]
        gmin.append(next((x for x in cl if math.isinf(x.features['crowding_distance'])), cl[0]))
        gmax.append(next((x for x in ch if math.isinf(x.features['crowding_distance'])), ch[0]))
    return {"gmin": gmin, "gmax": gmax}


@scenario("artap.operators:crowding_distance", bound="random fronts of size <= 7 with m <= 3 objectives over a 4-value grid (ties included)")
def crowding(rng, tier):
    from artap.operators import crowding_distance
    for _ in range(200 if tier == "quick" else 3000):
        n = rng.randint(0, 7)
        m = rng.randint(1, 3)
        front = [_mk([float(rng.randint(0, 3)) for _ in range(m)] + [0]) for _ in range(n)]
        yield {"call": lambda front: crowding_distance(front), "args": {"front": front}, "extra": _EXTRA, "post_extra": _cd_witness,
               "label": repr([x.costs_signed for x in front])}

"""Input families for the run-time (bounded) evaluation of the contracts of C01, C04, C20."""
import itertools
from rt.registry import scenario

GRID = [-1.0, 0.0, 0.5, 1.0, 2.0]
MARK = [0, 1, -1, 2, True, False, 0.5]


def _vectors(m):
    for objs in itertools.product(GRID[:4], repeat=m):
        for mk in MARK[:5]:
            yield list(objs) + [mk]


@scenario("artap.operators:ParetoDominance.compare", bound="all pairs over a 4-value grid, m<=2, 5 marker values; random m<=4")
def pareto_compare(rng, tier):
    from artap.operators import ParetoDominance
    d = ParetoDominance()
    for m in (1, 2):
        vs = list(_vectors(m))
        for p in vs:
            for q in vs:
                yield {"call": lambda p, q: d.compare(p, q), "args": {"p": list(p), "q": list(q)}, "label": "%r|%r" % (p, q)}
    n = 300 if tier == "quick" else 5000
    for _ in range(n):
        m = rng.randint(1, 4)
        p = [rng.choice(GRID) for _ in range(m)] + [rng.choice(MARK)]
        q = [rng.choice(GRID) for _ in range(m)] + [rng.choice(MARK)]
        yield {"call": lambda p, q: d.compare(p, q), "args": {"p": p, "q": q}, "label": "%r|%r" % (p, q)}
    # objectives that differ by less than any "robust" tolerance but are different floats: the comparator is exact
    near = [1000.0, 1000.0000005, 1.0, 1.0 + 2.3e-13, 5.0, 0.0, 1e-13]
    for _ in range(200 if tier == "quick" else 3000):
        m = rng.randint(1, 3)
        p = [rng.choice(near) for _ in range(m)] + [0]
        q = [rng.choice(near) for _ in range(m)] + [0]
        yield {"call": lambda p, q: d.compare(p, q), "args": {"p": p, "q": q}, "label": "near %r|%r" % (p, q)}


def _eps_extra():
    return {"eps_at": None}


@scenario("artap.operators:EpsilonDominance.compare", bound="grid pairs m<=2; epsilons from {0.1, 0.25, 1.0}")
def eps_compare(rng, tier):
    from artap.operators import EpsilonDominance
    for eps in ([0.1], [0.25, 1.0], [1.0, 0.1, 0.5]):
        d = EpsilonDominance(eps)
        for m in (1, 2):
            vs = list(_vectors(m))
            if tier == "quick":
                vs = vs[::3]
            for p in vs:
                for q in vs:
                    yield {"call": lambda self, p, q: self.compare(p, q), "args": {"self": d, "p": list(p), "q": list(q)},
                           "label": "%r|%r|%r" % (eps, p, q)}


def _mk_ind(costs, vector=None):
    from artap.individual import Individual
    x = Individual(vector if vector is not None else ([float(c) for c in costs[:-1]] or [0.0]))
    x.costs_signed = list(costs)
    return x


@scenario("artap.archive:Archive.add", bound="random add histories of length<=8 over a 4-value grid, m<=2, both comparators")
def archive_add(rng, tier):
    from artap.archive import Archive
    from artap.operators import ParetoDominance, EpsilonDominance
    n = 120 if tier == "quick" else 3000
    for k in range(n):
        dom = ParetoDominance() if k % 2 == 0 else EpsilonDominance([0.1, 0.1])
        a = Archive(dom)
        m = rng.randint(1, 2)
        hist = []
        style = k % 4      # 0/1: grid costs; 2: designs share a few vectors (re-evaluated designs with different costs);
        #                   3: cost vectors that differ only slightly (relative 1e-6) from earlier ones

        def cost():
            if style == 3 and hist and rng.random() < 0.6:
                base = rng.choice(hist)
                return [v * (1 + rng.choice([-1, 1]) * 1e-6) + rng.choice([0.0, 1e-9]) for v in base[:-1]] + [base[-1]]
            scale = 1000.0 if style == 3 else 1.0
            return [scale * rng.choice(GRID[1:4] if style == 3 else GRID[:4]) for _ in range(m)] + [rng.choice([0, 0, 0, 1, 2])]

        def vec():
            return [rng.choice([0.0, 1.0])] if style == 2 else None
        for step in range(rng.randint(1, 8)):
            # every addition of the history is a checked call (the archive carries over from one case to the next)
            c = cost()
            x = _mk_ind(c, vec())
            yield {"call": lambda self, individual: self.add(individual), "args": {"self": a, "individual": x},
                   "extra": {"acmp": lambda c_, p, q: c_.compare(p, q), "cmp_ok": lambda c_, p, q: True},
                   "label": "%s|%r|%r|%r" % (type(dom).__name__, hist, c, x.vector)}
            hist.append(c)


@scenario("artap.individual:Individual.__eq__", bound="all pairs of vectors over a 3-value grid with n<=3, plus near-equal perturbations")
def individual_eq(rng, tier):
    from artap.individual import Individual
    vals = [0.0, 1.0, 1.0 + 5e-11]
    for n in (1, 2, 3):
        for a in itertools.product(vals, repeat=n):
            for b in itertools.product(vals, repeat=n):
                yield {"call": lambda self, other: self.__eq__(other),
                       "args": {"self": Individual(list(a)), "other": Individual(list(b))}, "label": "%r|%r" % (a, b)}


@scenario("artap.individual:Individual.__hash__", bound="vectors over a 3-value grid with n<=3")
def individual_hash(rng, tier):
    from artap.individual import Individual
    vals = [0.0, 1.0, -2.5]
    for n in (1, 2, 3):
        for a in itertools.product(vals, repeat=n):
            yield {"call": lambda self: self.__hash__(), "args": {"self": Individual(list(a))}, "label": "%r" % (a,)}
            # the vector is routinely replaced after construction (generate(), sync(), from_dict()): the hash follows the
            # CURRENT vector, so equal designs hash equally whatever their construction history
            x = Individual([9.0] * n)
            x.vector = list(a)
            yield {"call": lambda self: self.__hash__(), "args": {"self": x}, "label": "reassigned %r" % (a,)}
            y = Individual(list(a))
            y.vector[0] = y.vector[0] + 1.0
            yield {"call": lambda self: self.__hash__(), "args": {"self": y}, "label": "updated in place %r" % (a,)}

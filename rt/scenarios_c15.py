"""C15 run-time scenarios: every single-objective benchmark on random / corner points of its box (python floats and numpy
scalars) and at its documented optimum.  Bounded information; for the functions under a deductive contract it replays the
same clauses on the real code."""
import logging
import math
from rt.registry import scenario

_DEDUCTIVE = ["Sphere", "Rosenbrock", "Rastrigin", "Zakharov", "AlpineFunction", "Griewank", "Booth", "XinSheYang", "XinSheYang3",
              "Ackley", "ModifiedEasom", "SixHump", "EqualityConstr"]
_NUMERIC = ["Schwefel", "Michaelwicz", "Schubert", "GramacyLee", "Perm", "XinSheYang2"]
_ROBUST = ["Synthetic1D", "Synthetic2D", "Synthetic5D", "Synthetic10D"]
_FIXED_DIM = {"Booth": 2, "SixHump": 2, "Schubert": 2, "GramacyLee": 1, "Synthetic1D": 1, "Synthetic2D": 2, "Synthetic5D": 5,
              "Synthetic10D": 10}


def _gen(module, cls):
    def gen(rng, tier):
        import importlib
        import numpy as np
        from artap.individual import Individual
        mod = importlib.import_module(module)
        # small dimensions plus one large one (overflow / accumulation effects show only there)
        dims = [_FIXED_DIM[cls]] if cls in _FIXED_DIM else ([2, 5, 10] if cls == "Michaelwicz" else [1, 2, 3, 4, 17, 30])
        for d in dims:
            p = getattr(mod, cls)(**({} if cls in _FIXED_DIM else {"dimension": d}))
            p.logger.setLevel(logging.CRITICAL)
            bounds = [q["bounds"] for q in p.parameters]
            pts = []
            coords = getattr(p, "global_optimum_coords", None)
            if coords is not None and len(coords) == len(bounds):
                pts.append((list(coords), True))
            for k in range(12 if tier == "quick" else 300):
                if k % 4 == 0:
                    v = [rng.choice([b[0], b[1], (b[0] + b[1]) / 2.0]) for b in bounds]
                else:
                    v = [rng.uniform(b[0], b[1]) for b in bounds]
                pts.append((v, False))
            if len(bounds) == 1:
                # one-dimensional functions: a dense scan of the whole box (narrow peaks / dips are missed by a few random points)
                n_scan = 400 if tier == "quick" else 4000
                lo, hi = bounds[0]
                pts += [([lo + (hi - lo) * t / n_scan], False) for t in range(n_scan + 1)]
            for v, at_opt in pts:
                for kind in ("py", "np"):
                    vec = [float(c) for c in v] if kind == "py" else [np.float64(c) for c in v]
                    yield {"call": lambda self, x: self.evaluate(x), "args": {"self": p, "x": Individual(vec)},
                           "extra": {"at_optimum": at_opt, "isfinite": lambda t: math.isfinite(float(t))},
                           "label": "%s d=%d %s opt=%s %r" % (cls, d, kind, at_opt, [round(float(c), 4) for c in v])}
    gen.__name__ = "c15_" + cls
    return gen


for _c in _DEDUCTIVE + _NUMERIC:
    scenario("artap.benchmark_functions:%s.evaluate" % _c, bound="dimensions 1..4, 17, 30 (fixed-dimension functions: theirs), corners, random points, documented optimum, dense scan for 1-D boxes; python and numpy floats")(
        _gen("artap.benchmark_functions", _c))
for _c in _ROBUST:
    scenario("artap.benchmark_robust:%s.evaluate" % _c, bound="corners, random points, documented optimum, dense scan for 1-D boxes; python and numpy floats")(
        _gen("artap.benchmark_robust", _c))

"""Input families for the bounded run-time evaluation of the C12 contracts (samplers)."""
from rt.registry import scenario

BOXES = [[(0.0, 1.0)], [(-5.0, -1.0), (0.0, 1e-3)], [(-100.0, 100.0), (2.0, 3.0), (-1.0, 1.0)], [(0.0, 1.0)] * 5,
         [(0, 3), (-2, 5)]]        # the last box declares its bounds as Python ints
PRIMES = [2, 3, 5, 7, 11, 13, 17, 19, 23, 29, 31, 37]


def _params(box):
    return [{'name': 'x%d' % i, 'bounds': [lo, hi]} for i, (lo, hi) in enumerate(box)]


def _radinv(i, b):
    """independent reference: digit expansion, exact rational arithmetic"""
    from fractions import Fraction
    r, f = Fraction(0), Fraction(1, b)
    while i > 0:
        r += (i % b) * f
        i //= b
        f /= b
    return float(r)


_X = {"radinv": _radinv, "ghost_radinv": _radinv, "ghost_primes": PRIMES}


@scenario("artap.doe:_van_der_corput", bound="bases 2..13, 0..40 samples (quick) / bases 2..37, 0..300 samples (thorough)")
def vdc(rng, tier):
    from artap.doe import _van_der_corput
    bases = PRIMES[:6] if tier == "quick" else PRIMES + [4, 10]
    for b in bases:
        for n in ([0, 1, 2, 17, 40, 260] if tier == "quick" else [0, 1, 2, 17, 40, 300, 3200]):     # 260 > 3^5, 3200 > 5^5
            yield {"call": lambda n_sample, base: _van_der_corput(n_sample, base), "args": {"n_sample": n, "base": b}, "extra": _X,
                   "label": "%d|%d" % (n, b)}


@scenario("artap.doe:construct_df_from_random_matrix", bound="random unit matrices up to 6x5, 4 boxes")
def affine(rng, tier):
    import numpy as np
    from artap.doe import construct_df_from_random_matrix
    for k in range(60 if tier == "quick" else 1000):
        box = rng.choice(BOXES)
        rows = rng.randint(0, 6)
        x = np.array([[rng.choice([0.0, 1.0, rng.random()]) for _ in box] for _ in range(rows)]).reshape(rows, len(box))
        fl = [[lo, hi] for lo, hi in box]
        yield {"call": lambda x, factor_lists: construct_df_from_random_matrix(x, factor_lists), "args": {"x": x, "factor_lists": fl},
               "label": "%r|%r" % (box, x.tolist())}


def _gen_cases(cls, rng, tier, numbers):
    import random as _r
    import numpy as np
    import artap.operators as ops
    for k in range(40 if tier == "quick" else 600):
        box = BOXES[k % len(BOXES)]
        n = numbers[k % len(numbers)]
        g = getattr(ops, cls)(_params(box))
        g.init(n)
        seed = rng.randint(0, 10 ** 6)

        def call(self, seed=seed):
            _r.seed(seed)
            np.random.seed(seed)
            return self.generate()
        yield {"call": call, "args": {"self": g}, "extra": _X, "label": "%s n=%d box=%r seed=%d" % (cls, n, box, seed)}


@scenario("artap.operators:LHSGenerator.generate", bound="N in {1,2,3,5,8,13,40}, 4 boxes (1-5 parameters), seeds")
def lhs(rng, tier):
    return _gen_cases("LHSGenerator", rng, tier, [1, 2, 3, 5, 8, 13, 40])


@scenario("artap.operators:HaltonGenerator.generate", bound="N in {1,2,3,5,8,13,40,200}, 4 boxes (1-5 parameters)")
def halton(rng, tier):
    return _gen_cases("HaltonGenerator", rng, tier, [1, 2, 3, 5, 8, 13, 40, 200, 243, 244, 730])      # exact powers of the bases


@scenario("artap.operators:RandomGenerator.generate", bound="N in {0,1,2,5,40}, 5 boxes, seeds; parameters with a coarse precision (coinciding draws)")
def rand(rng, tier):
    for c in _gen_cases("RandomGenerator", rng, tier, [0, 1, 2, 5, 40]):
        yield c
    # coarse precision: many of the N draws coincide, the generator still returns N designs
    import random as _r
    import artap.operators as ops
    for n in (5, 40):
        ps = [{'name': 'a', 'bounds': [0.0, 1.0], 'precision': 0.5}, {'name': 'b', 'bounds': [-2.0, 2.0], 'precision': 1.0}]
        g = ops.RandomGenerator(ps)
        g.init(n)

        def call(self, n=n):
            _r.seed(n)
            return self.generate()
        yield {"call": call, "args": {"self": g}, "extra": _X, "label": "coarse precision n=%d" % n}


@scenario("artap.operators:UniformGenerator.generate#grid", bound="k in {2,3,4,7} levels, boxes with 1-5 parameters (5 parameters: k <= 3); every k in 2..60 for four 1-2 parameter boxes")
def grid(rng, tier):
    import artap.operators as ops
    for box in BOXES:
        for kk in (2, 3, 4, 7):
            if len(box) >= 5 and kk > 3:
                continue
            g = ops.UniformGenerator(_params(box))
            g.init(kk)
            yield {"call": lambda self: self.generate(), "args": {"self": g}, "label": "k=%d box=%r" % (kk, box)}
    # every level count 2..60 for one- and two-parameter boxes with awkward float steps (level counts where an accumulated or
    # float-stepped construction drifts past / short of the upper bound)
    for box in ([(-2.5, 5.0)], [(0.0, 1.0)], [(6.0, 10.0)], [(-1.0, 1.0), (1.0, 3.4)]):
        for kk in range(2, 61 if len(box) == 1 or tier != "quick" else 21):
            g = ops.UniformGenerator(_params(box))
            g.init(kk)
            yield {"call": lambda self: self.generate(), "args": {"self": g}, "label": "k=%d box=%r" % (kk, box)}

"""Whole-run scenarios for C09 / C08 (bounded): small configurations of every algorithm, several seeds, with and without
injected transient evaluation failures."""
import logging
import random as _random
from rt.registry import scenario

BOXES = [[(0.0, 1.0), (0.0, 1.0)], [(-5.0, -1.0), (2.0, 2.5), (-1.0, 1.0)], [(-1e3, 1e3)]]


def _problem(box, m, fail_every):
    from artap.problem import Problem

    class P(Problem):
        def set(self):
            self.parameters = [{'name': 'x%d' % i, 'bounds': [lo, hi]} for i, (lo, hi) in enumerate(box)]
            self.costs = [{'name': 'f%d' % k, 'criteria': 'minimize'} for k in range(m)]

        def evaluate(self, individual):
            self.ghost_attempts += 1
            self.ghost_vectors.append(list(individual.vector))
            if fail_every and self.ghost_attempts % fail_every == 0:
                raise TimeoutError("injected transient failure")
            self.ghost_calls += 1
            v = individual.vector
            return [sum((c - 0.3 * (k + 1)) ** 2 for c in v) + k * v[0] for k in range(m)]
    P.ghost_attempts = 0
    p = P()
    p.ghost_attempts, p.ghost_calls, p.ghost_vectors = 0, 0, []
    from artap.operators import ParetoDominance
    p.ghost_cmp = ParetoDominance()
    p.logger.setLevel(logging.CRITICAL)
    return p


def _runs(cls_path, rng, tier, first_gen, objectives=(1, 2)):
    import importlib
    mod, cls = cls_path.split(":")
    for k in range(10 if tier == "quick" else 120):
        box = BOXES[k % len(BOXES)]
        m = objectives[k % len(objectives)]
        n = rng.choice([2, 3, 4, 6])
        g = rng.choice([1, 2, 3, 4])
        fail = 0 if k % 3 else rng.choice([5, 7])
        p = _problem(box, m, fail)
        a = getattr(importlib.import_module(mod), cls)(p)
        a.options['max_population_size'] = n
        a.options['max_population_number'] = g
        a.options['verbose_level'] = 0
        a.options['max_processes'] = 1
        a.run_N, a.run_G = n, g
        seed = rng.randint(0, 10 ** 6)

        def call(self, seed=seed):
            import numpy
            _random.seed(seed)
            numpy.random.seed(seed % (2 ** 32))
            return self.run()
        yield {"call": call, "args": {"self": a}, "label": "%s N=%d G=%d m=%d box=%r fail_every=%d seed=%d" % (cls, n, g, m, box, fail, seed)}


@scenario("artap.algorithm_NSGAII:NSGAII.run", bound="N in {2,3,4,6}, G in 1..4, 1-2 objectives, 3 boxes, seeds; every third run with injected transient failures")
def nsga2_runs(rng, tier):
    return _runs("artap.algorithm_NSGAII:NSGAII", rng, tier, 1)


@scenario("artap.algorithm_genetic:EpsMOEA.run", bound="as NSGAII.run (2 objectives)")
def epsmoea_runs(rng, tier):
    return _runs("artap.algorithm_genetic:EpsMOEA", rng, tier, 0, objectives=(2,))


@scenario("artap.algorithm_swarm:OMOPSO.run", bound="as NSGAII.run (2 objectives)")
def omopso_runs(rng, tier):
    return _runs("artap.algorithm_swarm:OMOPSO", rng, tier, 0, objectives=(2,))


@scenario("artap.algorithm_swarm:SMPSO.run", bound="as NSGAII.run (2 objectives)")
def smpso_runs(rng, tier):
    return _runs("artap.algorithm_swarm:SMPSO", rng, tier, 0, objectives=(2,))


@scenario("artap.algorithm_swarm:PSOGA.run", bound="as NSGAII.run (2 objectives); box clause only")
def psoga_runs(rng, tier):
    return _runs("artap.algorithm_swarm:PSOGA", rng, tier, 0, objectives=(2,))

"""C19 run-time scenarios: surrogate wrappers driven by a stub problem that keeps the ghost call log."""
from rt.registry import scenario


def _mk(predicting, rng, train_step, has_predict, trained, decline):
    from artap.surrogate import SurrogateModelPredict, SurrogateModelEval
    from artap.individual import Individual

    class P:
        def __init__(self):
            self.ghost_calls = 0
            self.ghost_last_arg = None
            self.ghost_last_vec = None
            self.ghost_last_ret = None
            self.parameters = [{"name": "x", "bounds": [0, 1]}]
            self.individuals = []

        def evaluate(self, individual):
            self.ghost_calls += 1
            self.ghost_last_arg = individual
            self.ghost_last_vec = individual.vector
            self.ghost_last_ret = [sum(individual.vector) * 2.0]
            return self.ghost_last_ret

    if has_predict:
        def predict(self, individual):
            if rng.random() < decline:
                return None
            return [123.0]
        P.predict = predict
    p = P()
    p.has_predict = has_predict

    if predicting:
        class S(SurrogateModelPredict):
            def train(self):
                self.trained = True
                self.ghost_trains += 1

            def predict(self, x, *args):
                return None
        s = S(p)
        s.train_step = train_step
        s.trained = trained
    else:
        s = SurrogateModelEval(p)
    s.ghost_trains = 0
    p.surrogate = s
    for _ in range(rng.randint(0, 5)):
        s.evaluate(Individual([rng.random()]))
    return s, Individual([rng.random()])


def _cases(which, rng, tier):
    n = 120 if tier == "quick" else 2000
    for k in range(n):
        ts = rng.choice([-1, 1, 2, 3, 5])
        hp, tr, dc = rng.random() < 0.6, rng.random() < 0.6, rng.choice([0.0, 0.5, 1.0])
        s, x = _mk(which != "eval", rng, ts, hp, tr, dc)
        label = "%s step=%s has_predict=%s trained=%s decline=%s pre=%d" % (which, ts, hp, tr, dc, s.eval_counter + s.predict_counter)
        if which == "eval":
            yield {"call": lambda self, individual: self.evaluate(individual), "args": {"self": s, "individual": x}, "label": label + " #%d" % k}
        elif which == "predict":
            yield {"call": lambda self, individual: self.evaluate(individual), "args": {"self": s, "individual": x}, "label": label + " #%d" % k}
        else:
            yield {"call": lambda self, individual: self.evaluate_individual(individual), "args": {"self": s, "individual": x}, "label": label + " #%d" % k}


@scenario("artap.surrogate:SurrogateModelEval.evaluate", bound="random histories of <= 5 earlier requests")
def c19_eval(rng, tier):
    return _cases("eval", rng, tier)


@scenario("artap.surrogate:SurrogateModelPredict.evaluate", bound="random histories <= 5, train_step in {-1,1,2,3,5}, predict hook present/absent/declining")
def c19_predict(rng, tier):
    return _cases("predict", rng, tier)


@scenario("artap.surrogate:SurrogateModelPredict.evaluate_individual", bound="as above")
def c19_evalind(rng, tier):
    return _cases("evalind", rng, tier)

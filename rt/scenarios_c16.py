"""C16 run-time scenarios: the family identities on random points of the box (all position-variable values, not only 0.5)."""
from rt.registry import scenario


def _gen(cls, kwargs_list, dim_of):
    def gen(rng, tier):
        import artap.benchmark_pareto as bp
        from artap.individual import Individual
        import logging
        for kw in kwargs_list:
            p = getattr(bp, cls)(**kw)
            p.logger.setLevel(logging.CRITICAL)
            n = dim_of(p)
            for k in range(25 if tier == "quick" else 400):
                if k % 5 == 0:
                    v = [rng.choice([0.0, 1.0, 0.5]) for _ in range(n)]
                else:
                    v = [rng.random() for _ in range(n)]
                arg = "x" if cls != "BiObjectiveTestProblem" else "individual"
                if cls == "BiObjectiveTestProblem":
                    v = [rng.uniform(0.1, 1.0), rng.uniform(0, 5)]
                yield {"call": (lambda self, x: self.evaluate(x)) if arg == "x" else (lambda self, individual: self.evaluate(individual)),
                       "args": {"self": p, arg: Individual(v)}, "label": "%s %r #%d %r" % (cls, kw, k, v[:4])}
    gen.__name__ = "c16_" + cls
    return gen


_M = [{"dimension": m + 9, "m": m} for m in (2, 3, 5)]
for _cls in ("DTLZII", "DTLZIII", "DTLZIV"):
    scenario("artap.benchmark_pareto:%s.evaluate" % _cls, bound="m in {2,3,5}, dimension m+9, random points incl. corners")(
        _gen(_cls, _M, lambda p: p.dimension))
scenario("artap.benchmark_pareto:DTLZI.evaluate", bound="m in {2,3,5}, k in {1,5,10}")(
    _gen("DTLZI", [{"dimension": m + k - 1, "m": m} for m in (2, 3, 5) for k in (1, 5, 10)], lambda p: p.dimension))
scenario("artap.benchmark_pareto:ZDT1.evaluate", bound="dimension 30")(_gen("ZDT1", [{}], lambda p: 30))
scenario("artap.benchmark_pareto:BiObjectiveTestProblem.evaluate", bound="random points of the box")(_gen("BiObjectiveTestProblem", [{}], lambda p: 2))

"""C14 run-time scenarios: worst-case and gradient evaluators over several batches (bounded)."""
import logging
from rt.registry import scenario


def _setup(kind, rng):
    from artap.problem import Problem
    from artap.algorithm import Algorithm, EvaluatorType

    class TP(Problem):
        def set(self):
            self.parameters = [{'name': 'a', 'bounds': [0, 1], 'tol': 0.1}, {'name': 'b', 'bounds': [0, 1], 'tol': 0.25},
                               {'name': 'c', 'bounds': [-1, 1], 'tol': 0.01}][:self._n]
            self.costs = [{'name': 'f', 'criteria': 'minimize'}, {'name': 'g', 'criteria': 'minimize'}][:self._m]

        def evaluate(self, individual):
            self.ghost_calls += 1
            v = individual.vector
            return [v[0] ** 2 + sum(v) * 0.5, sum(v)][:self._m]
    TP._n = rng.randint(1, 3)
    TP._m = rng.randint(1, 2)
    p = TP()
    p.logger.setLevel(logging.CRITICAL)
    p.ghost_calls = 0

    class A(Algorithm):
        def run(self):
            pass
    a = A(p, evaluator_type=EvaluatorType.WORST_CASE if kind == "wc" else EvaluatorType.GRADIENT)
    a.evaluator.ghost_history = []
    return p, a


def _gen(kind):
    def gen(rng, tier):
        from artap.individual import Individual
        for k in range(40 if tier == "quick" else 600):
            p, a = _setup(kind, rng)
            ev = a.evaluator
            n = len(p.parameters)
            seen = []

            def design():
                # interior points, points on / next to a bound, and NEW individuals that repeat the vector of an earlier design
                r = rng.random()
                if seen and r < 0.3:
                    v = list(rng.choice(seen))
                elif r < 0.6:
                    v = [rng.choice([pp['bounds'][0], pp['bounds'][1], pp['bounds'][0] + 0.5 * pp['tol'], rng.random()])
                         for pp in p.parameters]
                else:
                    v = [rng.random() for _ in range(n)]
                seen.append(list(v))
                return Individual([float(c) for c in v])
            for b in range(rng.randint(0, 3)):        # earlier batches
                xs = [design() for _ in range(rng.randint(1, 3))]
                a.evaluate(xs)
                ev.ghost_history.extend(xs)
            xs = [design() for _ in range(rng.randint(1, 3))]
            yield {"call": lambda self, individuals, _a=a: _a.evaluate(individuals), "args": {"self": ev, "individuals": xs},
                   "label": "#%d %s n=%d m=%d earlier=%d batch=%d" % (k, kind, n, len(p.costs) - 1, len(ev.ghost_history), len(xs))}
    gen.__name__ = "c14_" + kind
    return gen


scenario("artap.operators:WorstCaseEvaluator.evaluate", bound="<= 3 earlier batches of <= 3 designs, dimension <= 3, 1-2 objectives")(_gen("wc"))
scenario("artap.operators:GradientEvaluator.evaluate", bound="<= 3 earlier batches of <= 3 designs, dimension <= 3")(_gen("gr"))

"""C05 / C06 run-time scenarios: Job.evaluate and the batch evaluators driven by a scripted objective that keeps the ghost log."""
import itertools
import logging
from rt.registry import scenario


class OtherError(Exception):
    pass


class OtherOSError(OtherError, OSError):
    """a non-transient failure that is an OSError but not a TimeoutError (FileNotFoundError, PermissionError, ...)"""


def _problem(script, constraints=None, maximize=False, n=2):
    from artap.problem import Problem

    class TP(Problem):
        def set(self):
            self.name = "tp"
            self.parameters = [{'name': 'a', 'bounds': [-2., 3.]}, {'name': 'b', 'bounds': [0.5, 0.75], 'precision': 1e-3}][:n]
            self.costs = [{'name': 'f1', 'criteria': 'maximize' if maximize else 'minimize'}, {'name': 'f2'}]

        def evaluate(self, individual):
            self.ghost_calls += 1
            self.ghost_last_arg = individual
            self.ghost_last_vec = individual.vector
            step = self.script.pop(0) if self.script else "ok"
            if step == "T":
                raise TimeoutError("scripted")
            if step == "R":
                raise RuntimeError("scripted")
            if step == "O":
                self.ghost_nontransient += 1
                raise OtherError("scripted")
            if step == "F":
                self.ghost_nontransient += 1
                raise OtherOSError("scripted (an OSError that is not a TimeoutError)")
            self.ghost_last_ret = [sum(individual.vector) + 0.123456789123, individual.vector[0] * 3.0]
            individual.ghost_evals = getattr(individual, "ghost_evals", 0) + 1
            return self.ghost_last_ret

        def evaluate_inequality_constraints(self, x):
            self.ghost_last_g_vec = x
            if self.cons == "dep":
                self.ghost_last_g = [x[0] - 0.5]        # feasibility depends on the vector
            else:
                self.ghost_last_g = list(self.cons) if self.cons is not None else []
            return self.ghost_last_g
    p = TP()
    p.logger.setLevel(logging.CRITICAL)
    p.script = list(script)
    p.cons = constraints
    p.ghost_calls = 0
    p.ghost_nontransient = 0
    p.ghost_last_arg = p.ghost_last_vec = p.ghost_last_ret = None
    p.ghost_last_g = []
    p.ghost_last_g_vec = None
    p.ghost_ncosts = 2
    p.surrogate.passthrough = True
    p.surrogate.ghost_trains = 0
    p.surrogate.train_step = -1
    p.surrogate.regressor = None
    return p


def _ind(vec, state=0):
    from artap.individual import Individual
    x = Individual(list(vec))
    x.ghost_evals = 0
    if state == 2:
        x.costs = [1.0, 2.0]
        x.costs_signed = [1.0, 2.0, True]
        x.state = Individual.State.EVALUATED
    elif state:
        x.state = Individual.State(state)
    return x


def _scripts():
    out = []
    for k in range(0, 6):
        for fails in itertools.product("TR", repeat=k):
            out.append(list(fails) + ["ok"])
            if k < 5:
                out.append(list(fails) + ["O"])
                if k <= 2:
                    out.append(list(fails) + ["F"])
    return out


_EXC = {"OtherError": "OtherError"}


def _call_job(job):
    def call(self, individual):
        try:
            return self.evaluate(individual)
        except OtherError as e:
            raise _Other(str(e))
    return call


class _Other(Exception):
    pass


_Other.__name__ = "OtherError"


@scenario("artap.job:Job.evaluate", bound="every failure pattern of <= 5 transient failures (T/R) followed by success or a non-transient error; with/without constraints; already evaluated designs")
def c05_job(rng, tier):
    from artap.job import Job
    import contextlib, io
    scripts = _scripts()
    if tier == "quick":
        scripts = [s for i, s in enumerate(scripts) if len(s) <= 3 or i % 5 == 0 or len(s) >= 5]
    for si, script in enumerate(scripts):
        for cons in (None, [-1.0, -0.5], [-1.0, 0.0], [0.5], "dep"):
            if tier == "quick" and cons is not None and si % 3:
                continue
            for state in (0, 2):
                if state == 2 and si % 7:
                    continue
                p = _problem(script, cons, maximize=(si % 2 == 0))
                job = Job(p)
                x = _ind([rng.uniform(-2, 3), rng.uniform(0.5, 0.75)], state)

                def call(self, individual):
                    with contextlib.redirect_stdout(io.StringIO()):
                        try:
                            return self.evaluate(individual)
                        except OtherError as e:
                            raise _Other(str(e))
                yield {"call": call, "args": {"self": job, "individual": x}, "snapshot": ["individual"],
                       "label": "script=%s cons=%s state=%d" % ("".join(s[0] for s in script), cons, state)}


def _batch(which):
    def gen(rng, tier):
        from artap.algorithm import DummyAlgorithm
        import contextlib, io
        for k in range(60 if tier == "quick" else 1000):
            script = [rng.choice(["ok", "ok", "ok", "T", "R"]) for _ in range(rng.randint(0, 4))]
            p = _problem(script, rng.choice([None, [-1.0], [1.0]]), maximize=(k % 2 == 0))
            alg = DummyAlgorithm(p)
            alg.uuid = 7
            xs = [_ind([rng.uniform(-2, 3), rng.uniform(0.5, 0.75)], rng.choice([0, 0, 0, 2, 3])) for _ in range(rng.randint(0, 4))]
            if xs and rng.random() < 0.3:
                xs.append(xs[0])          # the same design twice in one batch
            target = {"serial": alg.evaluator, "evaluate": alg.evaluator, "algorithm": alg}[which]

            def call(self, individuals, _w=which):
                with contextlib.redirect_stdout(io.StringIO()):
                    if _w == "serial":
                        return self.evaluate_serial(individuals)
                    return self.evaluate(individuals)
            yield {"call": call, "args": {"self": target, "individuals": xs}, "snapshot": ["individuals"],
                   "label": "#%d script=%s states=%s" % (k, script, [getattr(x.state, 'value', x.state) for x in xs])}
    gen.__name__ = "c05_batch_" + which
    return gen


scenario("artap.operators:Evaluator.evaluate_serial", bound="random batches <= 5 designs (new / evaluated / failed, duplicates), scripted transient failures")(_batch("serial"))
scenario("artap.operators:Evaluator.evaluate", bound="as evaluate_serial")(_batch("evaluate"))
scenario("artap.algorithm:Algorithm.evaluate", bound="as evaluate_serial")(_batch("algorithm"))


@scenario("artap.operators:Evaluator.evaluate_scalar", bound="random points, minimised and maximised first objective, scripted failures")
def c05_scalar(rng, tier):
    from artap.algorithm import DummyAlgorithm
    import contextlib, io
    for k in range(60 if tier == "quick" else 1000):
        script = [rng.choice(["ok", "ok", "T", "R"]) for _ in range(rng.randint(0, 3))]
        p = _problem(script, None, maximize=(k % 2 == 0))
        alg = DummyAlgorithm(p)

        def call(self, vector):
            with contextlib.redirect_stdout(io.StringIO()):
                return self.evaluate_scalar(vector)
        yield {"call": call, "args": {"self": alg.evaluator, "vector": [rng.uniform(-2, 3), rng.uniform(0.5, 0.75)]},
               "snapshot": ["vector"], "label": "#%d script=%s max=%s" % (k, script, k % 2 == 0)}


@scenario("artap.individual:Individual.calc_signed_costs", bound="random costs, signs in {-1,1}, precision 0..9, feasible in {0.0, True, False}")
def c05_signed(rng, tier):
    for k in range(200 if tier == "quick" else 3000):
        x = _ind([0.0])
        x.costs = [rng.uniform(-1e3, 1e3) for _ in range(rng.randint(0, 4))]
        x.features["precision"] = rng.randint(0, 9)
        x.features["feasible"] = rng.choice([0.0, True, False])
        signs = [rng.choice([-1, 1]) for _ in range(rng.randint(0, 4))]
        yield {"call": lambda self, p_signs: self.calc_signed_costs(p_signs), "args": {"self": x, "p_signs": signs},
               "label": "#%d %r %r" % (k, x.costs, signs)}


@scenario("artap.utils:VectorAndNumbers.gen_vector", bound="random boxes (negative, tiny, huge ranges), with and without a declared precision")
def c06_genvec(rng, tier):
    from artap.utils import VectorAndNumbers
    for k in range(200 if tier == "quick" else 5000):
        ps = []
        for _ in range(rng.randint(0, 4)):
            lb = rng.choice([-1e6, -1.0, 0.0, 1e-9, 3.0])
            ub = lb + rng.choice([0.0, 1e-9, 1.0, 1e6]) * rng.random()
            p = {"name": "x", "bounds": [lb, ub]}
            if rng.random() < 0.5:
                p["precision"] = rng.choice([1e-3, 0.5, 1e-6, 0])
            ps.append(p)
        yield {"call": lambda design_parameters: VectorAndNumbers.gen_vector(design_parameters), "args": {"design_parameters": ps},
               "label": "#%d %r" % (k, ps)}


@scenario("artap.algorithm_sweep:SweepAlgorithm.run", bound="custom generators with <= 6 vectors, repeated vectors included")
def c05_sweep(rng, tier):
    from artap.algorithm_sweep import SweepAlgorithm
    from artap.operators import CustomGenerator
    import contextlib, io
    for k in range(30 if tier == "quick" else 400):
        p = _problem([], None)
        pool = [[rng.uniform(-2, 3), rng.uniform(0.5, 0.75)] for _ in range(3)]
        vectors = [list(rng.choice(pool)) for _ in range(rng.randint(0, 6))]      # repeats are likely
        g = CustomGenerator(p.parameters)
        g.init(vectors)
        a = SweepAlgorithm(p, g)
        a.options['max_processes'] = 1
        a.options['verbose_level'] = 0

        def call(self):
            with contextlib.redirect_stdout(io.StringIO()):
                return self.run()
        yield {"call": call, "args": {"self": a}, "post_extra": lambda args, result, vectors=vectors: {"gvecs": vectors},
               "label": "vectors=%r" % ([[round(c, 3) for c in v] for v in vectors],)}

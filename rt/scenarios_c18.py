"""C18 run-time scenarios (swarm helpers on small random swarms)."""
from rt.registry import scenario

_ALG = {}


def _algo(cls_name):
    if cls_name not in _ALG:
        import logging
        from artap.problem import Problem
        import artap.algorithm_swarm as sw

        class TP(Problem):
            def set(self):
                self.name = "tp"
                self.parameters = [{'name': 'a', 'bounds': [-2., 3.]}, {'name': 'b', 'bounds': [0.5, 0.75]}, {'name': 'c', 'bounds': [-10., -4.]}]
                self.costs = [{'name': 'f1', 'criteria': 'minimize'}, {'name': 'f2', 'criteria': 'minimize'}]

            def evaluate(self, individual):
                return [sum(individual.vector), individual.vector[0] ** 2]
        p = TP()
        p.logger.setLevel(logging.CRITICAL)
        _ALG[cls_name] = getattr(sw, cls_name)(p)
    return _ALG[cls_name]


def _particle(rng, n=3, wild=False):
    from artap.individual import Individual
    lo, hi = (-50, 50) if wild else (-3, 3)
    x = Individual([rng.uniform(lo, hi) for _ in range(n)])
    x.costs_signed = [rng.choice([0., 1., 2.]), rng.choice([0., 1., 2.]), rng.choice([0, 0, 1])]
    x.features['velocity'] = [rng.uniform(lo, hi) for _ in range(n)]
    x.features['best_cost'] = [rng.choice([0., 1., 2.]), rng.choice([0., 1., 2.]), rng.choice([0, 0, 1])]
    x.features['best_vector'] = [rng.uniform(-1, 1) for _ in range(n)]
    x.features['crowding_distance'] = rng.choice([0.0, 0.5, float("inf")])
    return x


@scenario("artap.algorithm_swarm:SwarmAlgorithm.speed_constriction", bound="random reals, ranges 1e-6..1e6")
def c18_speed(rng, tier):
    a = _algo("SwarmAlgorithm")
    for _ in range(300 if tier == "quick" else 5000):
        lb = rng.uniform(-1e3, 1e3)
        ub = lb + rng.choice([0.0, 1e-6, 1.0, 1e6]) * rng.random()
        v = rng.choice([-1e9, 1e9, 0.0, rng.uniform(-2 * (ub - lb), 2 * (ub - lb))])
        yield {"call": lambda velocity, u_bound, l_bound: a.speed_constriction(velocity, u_bound, l_bound),
               "args": {"velocity": v, "u_bound": ub, "l_bound": lb}, "label": "%r %r %r" % (v, ub, lb)}


@scenario("artap.algorithm_swarm:SwarmAlgorithm.update_particle_best", bound="random swarms of <= 4 particles, 2 objectives over a 3-value grid")
def c18_pbest(rng, tier):
    a = _algo("SwarmAlgorithm")
    for k in range(200 if tier == "quick" else 3000):
        ps = [_particle(rng) for _ in range(rng.randint(0, 4))]
        yield {"call": lambda self, population: self.update_particle_best(population), "args": {"self": a, "population": ps},
               "snapshot": ["population"], "label": "#%d %r" % (k, [(p.costs_signed, p.features['best_cost']) for p in ps])}


def _pos(cls):
    def gen(rng, tier):
        a = _algo(cls)
        for k in range(150 if tier == "quick" else 3000):
            ps = [_particle(rng, wild=(k % 2 == 0)) for _ in range(rng.randint(0, 3))]
            yield {"call": lambda self, individuals: self.update_position(individuals), "args": {"self": a, "individuals": ps},
                   "snapshot": ["individuals"], "label": "#%d %r" % (k, [(p.vector, p.features['velocity']) for p in ps])}
    gen.__name__ = "c18_pos_" + cls
    return gen


for _c in ("OMOPSO", "SMPSO", "PSOGA"):
    scenario("artap.algorithm_swarm:%s.update_position" % _c, bound="random swarms of <= 3 particles in a 3-parameter box, positions/velocities far outside the box")(_pos(_c))


def _vel(cls, target):
    def gen(rng, tier):
        from artap.archive import Archive
        a = _algo(cls)
        for k in range(60 if tier == "quick" else 1500):
            a.leaders = Archive()
            a.leaders._contents = [_particle(rng) for _ in range(rng.randint(1, 3))]
            ps = [_particle(rng, wild=True) for _ in range(rng.randint(0, 3))]
            yield {"call": lambda self, individuals: self.update_velocity(individuals), "args": {"self": a, "individuals": ps},
                   "snapshot": ["individuals"], "label": "#%d %r" % (k, [p.vector for p in ps])}
    gen.__name__ = "c18_vel_" + cls
    return gen


scenario("artap.algorithm_swarm:SwarmAlgorithm.update_velocity", bound="random swarms <= 3 particles, leaders <= 3")(_vel("OMOPSO", None))
scenario("artap.algorithm_swarm:PSOGA.update_velocity", bound="random swarms <= 3 particles, leaders <= 3")(_vel("PSOGA", None))


def _ugb(cls):
    def gen(rng, tier):
        from artap.archive import Archive
        from artap.operators import ParetoDominance
        a = _algo(cls)
        for k in range(60 if tier == "quick" else 1000):
            size = rng.choice([1, 2, 3, 5])
            a.options['max_population_size'] = size          # set after construction, as users do
            a.leaders = Archive(ParetoDominance())
            swarm = []
            for _ in range(rng.randint(1, 8)):
                p = _particle(rng)
                f1 = rng.choice([0.0, 1.0, 2.0, 3.0, 4.0])
                p.costs_signed = [f1, 4.0 - f1 + rng.choice([0.0, 0.0, 1.0]), 0]
                swarm.append(p)
            for _ in range(rng.randint(0, 2)):                # earlier generations
                a.update_global_best([_particle(rng) for _ in range(rng.randint(1, 4))])
            yield {"call": lambda self, swarm: self.update_global_best(swarm), "args": {"self": a, "swarm": swarm},
                   "extra": {"acmp": lambda c_, p, q: c_.compare(p, q), "cmp_ok": lambda c_, p, q: True},
                   "label": "#%d %s size=%d swarm=%r" % (k, cls, size, [p.costs_signed for p in swarm])}
    gen.__name__ = "c18_ugb_" + cls
    return gen


for _c in ("SMPSO", "PSOGA"):
    scenario("artap.algorithm_swarm:%s.update_global_best" % _c, bound="population size in {1,2,3,5} set after construction, swarms <= 8 with long non-dominated fronts")(_ugb(_c))

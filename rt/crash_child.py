"""Child process of the C11 crash exploration: a small NSGA-II run on an SQLite store (default thread-safe mode) that dies
with os._exit (no clean-up handlers) at the k-th event.  Events: objective calls, and every execute / commit of every sqlite3
connection, each counted once before and once after the call.  Usage: crash_child.py <db> <log> <k> [serial|parallel]
The log receives one line `synced <id>` after each sync_individual call of the store has RETURNED (flushed + fsynced)."""
import os
import sys

db, log, kill_at = sys.argv[1], sys.argv[2], int(sys.argv[3])
mode = sys.argv[4] if len(sys.argv) > 4 else "serial"
events = [0]
logf = open(log, "a")


def event(tag):
    events[0] += 1
    if events[0] == kill_at:
        os._exit(9)


def note(line):
    logf.write(line + "\n")
    logf.flush()
    os.fsync(logf.fileno())


import sqlite3  # noqa: E402
_real_connect = sqlite3.connect


class _Cur:
    def __init__(self, c):
        self._c = c

    def execute(self, *a, **k):
        event("before execute")
        r = self._c.execute(*a, **k)
        event("after execute")
        return r

    def __getattr__(self, n):
        return getattr(self._c, n)


class _Conn:
    def __init__(self, c):
        self._c = c

    def cursor(self):
        return _Cur(self._c.cursor())

    def commit(self):
        event("before commit")
        r = self._c.commit()
        event("after commit")
        return r

    def __getattr__(self, n):
        return getattr(self._c, n)


sqlite3.connect = lambda *a, **k: _Conn(_real_connect(*a, **k))

sys.path.insert(0, os.environ.get("PYVC_REPO", "/repo"))
import logging  # noqa: E402
from artap.problem import Problem  # noqa: E402
from artap.datastore import SqliteDataStore  # noqa: E402
from artap.algorithm_NSGAII import NSGAII  # noqa: E402
import random  # noqa: E402

random.seed(7)


class P(Problem):
    def set(self):
        self.name = "crash"
        self.parameters = [{'name': 'a', 'bounds': [0, 1]}, {'name': 'b', 'bounds': [-1, 1]}]
        self.costs = [{'name': 'f'}, {'name': 'g'}]

    def evaluate(self, individual):
        event("objective")
        v = individual.vector
        return [v[0] ** 2 + v[1], (v[0] - 1) ** 2 - v[1]]


p = P()
p.logger.setLevel(logging.CRITICAL)
store = SqliteDataStore(p, database_name=db, mode="write")
_sync = store.sync_individual


def sync_individual(individual):
    r = _sync(individual)
    note("synced %d" % individual.id)
    return r


store.sync_individual = sync_individual
p.data_store = store
a = NSGAII(p)
a.options['max_population_size'] = 3
a.options['max_population_number'] = 2
a.options['verbose_level'] = 0
a.options['max_processes'] = 1 if mode == "serial" else 2
a.run()
note("finished %d" % events[0])

"""C17 run-time scenarios: indicators and result queries on small recorded data sets."""
import logging
from rt.registry import scenario


def _pts(rng, n, m, grid=False):
    if grid:
        return [[rng.choice([0.0, 1.0, 2.0]) for _ in range(m)] for _ in range(n)]
    return [[rng.uniform(-2, 2) for _ in range(m)] for _ in range(n)]


@scenario("artap.quality_indicator:epsilon_add", bound="<= 4 reference and computed points, 1-3 coordinates, incl. identical and shifted sets")
def c17_eps(rng, tier):
    from artap.quality_indicator import epsilon_add
    for k in range(150 if tier == "quick" else 1000):
        m = rng.randint(1, 3)
        R = _pts(rng, rng.randint(1, 4), m, grid=(k % 2 == 0))
        if k % 5 == 0:
            C = [list(r) for r in R]
        elif k % 5 == 1:
            d = rng.choice([0.0, 0.5, 2.0])
            C = [[x + d for x in r] for r in R]
        else:
            C = _pts(rng, rng.randint(1, 4), m, grid=(k % 2 == 0))
        yield {"call": lambda reference, computed: float(epsilon_add(reference, computed)),
               "args": {"reference": R, "computed": C}, "label": "#%d %r %r" % (k, R, C)}


@scenario("artap.quality_indicator:gd", bound="<= 4 reference and computed points, 1-3 coordinates")
def c17_gd(rng, tier):
    from artap.quality_indicator import gd
    for k in range(100 if tier == "quick" else 600):
        m = rng.randint(1, 3)
        R = _pts(rng, rng.randint(1, 4), m, grid=(k % 2 == 0))
        C = [list(rng.choice(R)) for _ in range(rng.randint(1, 3))] if k % 4 == 0 else _pts(rng, rng.randint(1, 4), m, grid=(k % 2 == 0))
        yield {"call": lambda reference, computed: float(gd(reference, computed)), "args": {"reference": R, "computed": C},
               "label": "#%d %r %r" % (k, R, C)}


def _results(rng, maximize=False):
    from artap.problem import Problem
    from artap.results import Results
    from artap.individual import Individual

    class TP(Problem):
        def set(self):
            self.parameters = [{'name': 'a', 'bounds': [0, 1]}, {'name': 'b', 'bounds': [0, 1]}]
            self.costs = [{'name': 'f', 'criteria': 'maximize' if maximize else 'minimize'}, {'name': 'g'}]

        def evaluate(self, individual):
            return [0, 0]
    p = TP()
    p.logger.setLevel(logging.CRITICAL)
    for _ in range(rng.randint(1, 7)):
        x = Individual([rng.choice([0.0, 0.5, 1.0]), rng.random()])
        x.costs = [rng.choice([1.0, 2.0, 3.0]), rng.random()]
        x.population_id = rng.choice([0, 1, 2, 5])
        p.individuals.append(x)
    return p, Results(p)


def _witness(src, res):
    idx, pos = [], 0
    for r in res:
        while src[pos] is not r:
            pos += 1
        idx.append(pos)
        pos += 1
    return idx


@scenario("artap.problem:Problem.population", bound="<= 7 recorded designs, unsorted tags from {0,1,2,5}")
def c17_pop(rng, tier):
    for k in range(100 if tier == "quick" else 600):
        p, r = _results(rng)
        t = rng.choice([0, 1, 2, 3, 5])
        yield {"call": lambda self, population_id: self.population(population_id), "args": {"self": p, "population_id": t},
               "post_extra": lambda a, res: {"gidx": _witness(a["self"].individuals, res)},
               "label": "#%d tags=%r t=%d" % (k, [x.population_id for x in p.individuals], t)}


@scenario("artap.problem:Problem.last_population", bound="as population")
def c17_last(rng, tier):
    for k in range(100 if tier == "quick" else 600):
        p, r = _results(rng)
        yield {"call": lambda self: self.last_population(), "args": {"self": p},
               "post_extra": lambda a, res: {"gidx": _witness(a["self"].individuals, res),
                                             "max_index": max([x.population_id for x in a["self"].individuals] + [-1])},
               "label": "#%d tags=%r" % (k, [x.population_id for x in p.individuals])}


@scenario("artap.results:Results.find_optimum", bound="<= 7 designs, duplicate cost values, minimised and maximised first goal")
def c17_opt(rng, tier):
    for k in range(150 if tier == "quick" else 600):
        p, r = _results(rng, maximize=(k % 2 == 0))
        name = rng.choice([None, 'f', 'g'])
        yield {"call": lambda self, name: self.find_optimum(name), "args": {"self": r, "name": name},
               "post_extra": lambda a, res: {"index": {None: 0, 'f': 0, 'g': 1}[a["name"]]},
               "label": "#%d max=%s name=%s costs=%r" % (k, k % 2 == 0, name, [x.costs for x in p.individuals])}


@scenario("artap.results:Results.goal_on_parameter", bound="<= 7 designs, unsorted listing")
def c17_gop(rng, tier):
    for k in range(100 if tier == "quick" else 600):
        p, r = _results(rng)
        pid = rng.choice([-1, 0, 1, 5])
        pn, gn = rng.choice(['a', 'b']), rng.choice(['f', 'g'])

        def extra(a, res, p=p, pid=pid, pn=pn, gn=gn):
            inds = p.last_population() if pid == -1 else p.population(pid)
            return {"individuals": inds, "parameter_index": ['a', 'b'].index(pn), "goal_index": ['f', 'g'].index(gn)}
        yield {"call": lambda self, parameter_name, goal_name, population_id, sorted: self.goal_on_parameter(parameter_name, goal_name, population_id, sorted),
               "args": {"self": r, "parameter_name": pn, "goal_name": gn, "population_id": pid, "sorted": False},
               "post_extra": extra, "label": "#%d pid=%d %s %s" % (k, pid, pn, gn)}


def _listing(method, argnames):
    def gen(rng, tier):
        import builtins
        for k in range(60 if tier == "quick" else 300):
            p, r = _results(rng, maximize=(k % 2 == 0))
            for x in p.individuals:
                x.features['front_number'] = rng.choice([1, 1, 2, 3])
            tags = sorted({x.population_id for x in p.individuals})
            pid = rng.choice([-1] + tags)
            pn, p2, gn = rng.choice(['a', 'b']), rng.choice(['a', 'b']), rng.choice(['f', 'g'])
            srt = rng.choice([True, False])
            name = rng.choice([None, 'x'])
            vals = {"parameter_name": pn, "goal_name": gn, "population_id": pid, "sorted": srt, "parameter_1": pn, "parameter_2": p2,
                    "name": None if name is None else (gn if "goal" in method else pn), "transpose": rng.choice([True, False])}
            if method in ("pareto_front", "pareto_individuals"):
                vals["population_id"] = rng.choice([None] + tags)
            args = {"self": r}
            args.update({a: vals[a] for a in argnames})
            if method == "goal_on_parameter#sorted":
                args["sorted"] = True
            call_name = method.split("#")[0]
            extra = {"ghost_pi": ['a', 'b'].index(pn), "ghost_gi": ['f', 'g'].index(gn), "ghost_p1": ['a', 'b'].index(pn),
                     "ghost_p2": ['a', 'b'].index(p2), "builtins_sorted": builtins.sorted, "id": id}
            yield {"call": (lambda self, **kw: getattr(self, call_name)(**kw)), "args": args, "extra": extra,
                   "label": "#%d %s %r tags=%r" % (k, method, {a: args[a] for a in argnames}, [x.population_id for x in p.individuals])}
    gen.__name__ = "c17_" + method.replace("#", "_")
    return gen


for _m, _a in (("goal_on_parameter#sorted", ["parameter_name", "goal_name", "population_id", "sorted"]),
               ("parameter_on_goal", ["goal_name", "parameter_name", "population_id", "sorted"]),
               ("parameter_on_parameter", ["parameter_1", "parameter_2", "population_id", "sorted"]),
               ("goal_on_index", ["name", "population_id"]), ("parameter_on_index", ["name", "population_id"]),
               ("costs", []), ("parameters", []), ("pareto_front", ["population_id"]), ("pareto_individuals", ["population_id"]),
               ("table", ["transpose"])):
    scenario("artap.results:Results." + _m, bound="<= 7 recorded designs with unsorted tags {0,1,2,5}, every listing argument combination")(_listing(_m, _a))


@scenario("artap.problem:Problem.populations", bound="<= 7 recorded designs with unsorted, interleaved tags")
def c17_populations(rng, tier):
    import builtins
    for k in range(60 if tier == "quick" else 300):
        p, r = _results(rng)
        yield {"call": lambda self: self.populations(), "args": {"self": p}, "extra": {"builtins_sorted": builtins.sorted, "id": id},
               "label": "#%d tags=%r" % (k, [x.population_id for x in p.individuals])}

"""Run-time twin of the contract language: the *same clause texts* the prover sees are evaluated on the real code
(under /venv/bin/python).  Used for replays, bounded stand-ins and contract validation (DESIGN.md 2.5, appendix C)."""
import ast
import copy
import glob
import math
import os

HERE = os.path.dirname(os.path.dirname(os.path.abspath(__file__)))


class RtRegistry:
    def __init__(self):
        self.contracts = {}
        self.macros = {}
        self.props = {}

    def load(self):
        api = {
            "classdef": lambda *a, **k: None,
            "contract": self._contract,
            "define": self._define,
            "declare_fun": self._declare_fun,
            "lemma": lambda *a, **k: None,
            "axiom": lambda *a, **k: None,
            "prop": lambda pid, **k: self.props.__setitem__(pid, k),
        }
        files = sorted(glob.glob(os.path.join(HERE, "contracts", "*.py")))
        files.sort(key=lambda p: (0 if os.path.basename(p).startswith("00_") else 1, p))
        g = dict(api)
        for p in files:
            if os.path.basename(p).startswith(("harness_", "_")):
                continue
            exec(compile(open(p).read(), p, "exec"), g)
        return self

    def _contract(self, target, **kw):
        self.contracts[target] = kw

    def _define(self, name, params, body):
        self.macros[name] = (params, body)

    def _declare_fun(self, name, params, ret, heap=(), definition=None, **kw):
        if definition:
            # a recursive spec function with a defining equation is an ordinary (recursive) python function at run time
            self.macros[name] = ([p[0] for p in params], definition)


class _Tr(ast.NodeTransformer):
    """implies/iff/ite become lazy python; old(e) reads the pre-state copies; `is` goes through identity canonicalisation"""

    def __init__(self, params, in_old=False):
        self.params = set(params)
        self.in_old = in_old
        self.bound = set()

    def visit_Lambda(self, node):
        names = [a.arg for a in node.args.args]
        saved = set(self.bound)
        self.bound |= set(names)
        node.body = self.visit(node.body)
        self.bound = saved
        return node

    def visit_Call(self, node):
        if isinstance(node.func, ast.Name):
            f = node.func.id
            if f == "implies" and len(node.args) == 2:
                a, b = self.visit(node.args[0]), self.visit(node.args[1])
                return ast.BoolOp(op=ast.Or(), values=[ast.UnaryOp(op=ast.Not(), operand=a), b])
            if f == "ite" and len(node.args) == 3:
                c, a, b = (self.visit(x) for x in node.args)
                return ast.IfExp(test=c, body=a, orelse=b)
            if f == "iff" and len(node.args) == 2:
                a, b = self.visit(node.args[0]), self.visit(node.args[1])
                mk = lambda x: ast.Call(func=ast.Name(id="bool", ctx=ast.Load()), args=[x], keywords=[])
                return ast.Compare(left=mk(a), ops=[ast.Eq()], comparators=[mk(b)])
            if f == "old" and len(node.args) == 1:
                saved = self.in_old
                self.in_old = True
                e = self.visit(node.args[0])
                self.in_old = saved
                return e
        node.func = self.visit(node.func)
        node.args = [self.visit(a) for a in node.args]
        node.keywords = [ast.keyword(arg=k.arg, value=self.visit(k.value)) for k in node.keywords]
        return node

    def visit_Name(self, node):
        if self.in_old and isinstance(node.ctx, ast.Load) and node.id not in ("len", "abs", "min", "max", "sum", "tuple", "hash",
                                                                             "True", "False", "None", "_oldv", "_same"):
            # inside old(): every object is replaced by its pre-state copy (objects created by the call have none)
            return ast.Call(func=ast.Name(id="_oldv", ctx=ast.Load()), args=[node], keywords=[])
        return node

    def visit_Attribute(self, node):
        node = self.generic_visit(node)
        if node.attr == "state" and isinstance(node.ctx, ast.Load):
            # Individual.State is an Enum; the contracts use its integer values
            return ast.Call(func=ast.Name(id="_enumval", ctx=ast.Load()), args=[node], keywords=[])
        if node.attr == "ghost_evals" and isinstance(node.ctx, ast.Load):
            # ghost evaluation counter: an object the scenario did not instrument has not been evaluated through the log
            return ast.Call(func=ast.Name(id="getattr", ctx=ast.Load()), args=[node.value, ast.Constant(node.attr), ast.Constant(0)], keywords=[])
        return node

    def visit_Compare(self, node):
        node = self.generic_visit(node)
        if len(node.ops) == 1 and isinstance(node.ops[0], (ast.Eq, ast.NotEq, ast.LtE, ast.GtE)):
            # floats: the contracts are statements over the reals (A1); at run time they are compared up to rounding
            fn = {ast.Eq: "_feq", ast.NotEq: "_fne", ast.LtE: "_fle", ast.GtE: "_fge"}[type(node.ops[0])]
            return ast.Call(func=ast.Name(id=fn, ctx=ast.Load()), args=[node.left, node.comparators[0]], keywords=[])
        if len(node.ops) == 1 and isinstance(node.ops[0], (ast.Is, ast.IsNot)):
            c = node.comparators[0]
            if isinstance(c, ast.Constant) and c.value is None:
                return node
            call = ast.Call(func=ast.Name(id="_same", ctx=ast.Load()), args=[node.left, c], keywords=[])
            if isinstance(node.ops[0], ast.IsNot):
                return ast.UnaryOp(op=ast.Not(), operand=call)
            return call
        return node


_ATOMIC = (int, float, str, bool, bytes, type(None), complex)


def _snap(o, memo, depth=0):
    """structural deep copy that never pickles: containers and plain objects are copied, everything else (locks, loggers,
    modules, functions, db connections) is shared"""
    import enum
    import types
    if isinstance(o, _ATOMIC) or isinstance(o, (enum.Enum, type, types.FunctionType, types.MethodType, types.ModuleType)):
        return o
    oid = id(o)
    if oid in memo:
        return memo[oid]
    mod = type(o).__module__ or ""
    if mod.startswith(("logging", "threading", "_thread", "sqlite3", "joblib")):
        memo[oid] = o
        return o
    if isinstance(o, list):
        c = []
        memo[oid] = c
        c.extend(_snap(x, memo, depth + 1) for x in o)
        return c
    if isinstance(o, tuple):
        c = tuple(_snap(x, memo, depth + 1) for x in o)
        memo[oid] = c
        return c
    if isinstance(o, dict):
        c = {}
        memo[oid] = c
        for k, v in o.items():
            c[k] = _snap(v, memo, depth + 1)
        return c
    if isinstance(o, set):
        c = set(o)
        memo[oid] = c
        return c
    if mod.startswith("numpy"):
        try:
            c = o.copy()
        except Exception:
            c = o
        memo[oid] = c
        return c
    if hasattr(o, "__dict__") and not isinstance(o, type):
        try:
            c = object.__new__(type(o))
        except Exception:
            memo[oid] = o
            return o
        memo[oid] = c
        for k, v in vars(o).items():
            try:
                object.__setattr__(c, k, _snap(v, memo, depth + 1))
            except Exception:
                pass
        return c
    memo[oid] = o
    return o


def _isfloat(v):
    return isinstance(v, float) or type(v).__name__ in ("float64", "float32")


def _feq(a, b):
    if (_isfloat(a) or _isfloat(b)) and not isinstance(a, bool) and not isinstance(b, bool):
        try:
            return a == b or math.isclose(a, b, rel_tol=1e-9, abs_tol=1e-9)
        except TypeError:
            return a == b
    return a == b


def _round_dec(x, n):
    import numpy as np
    return float(np.round(x, decimals=int(n)))


def _ranges(n, rest):
    if n == 1 and len(rest) == 2 and not isinstance(rest[0], tuple):
        return [range(int(rest[0]), int(rest[1]))]
    return [range(int(lo), int(hi)) for lo, hi in rest]


def _forall(f, *rest, trig=None):
    import itertools
    n = f.__code__.co_argcount
    return all(f(*c) for c in itertools.product(*_ranges(n, rest)))


def _exists(f, *rest, trig=None):
    import itertools
    n = f.__code__.co_argcount
    return any(f(*c) for c in itertools.product(*_ranges(n, rest)))


class Evaluator:
    def __init__(self, reg, extra=None, exact=False):
        self.reg = reg
        self.extra = extra or {}
        self.exact = exact      # comparison-only code (C01): the contract is evaluated with exact float comparisons
        self.canon = {}
        self.pre = {}
        self._macro_fns = {}

    def base_env(self):
        env = {
            "forall": _forall, "exists": _exists, "_same": self._same, "_pre": self.pre, "_oldv": self._oldv,
            "seq_eq": lambda a, b: list(a) == list(b), "valid": lambda x: True, "fresh": lambda x: True,
            "allocated_before": lambda x: True, "is_none": lambda x: x is None,
            "unchanged": self._unchanged, "real": float, "seqsum": lambda l, lo=0, hi=None: math.fsum(list(l)[lo:hi]),
            "fdiv": lambda a, b: a / b, "math": math, "inf": math.inf,
            "_enumval": lambda v: getattr(v, "value", v), "round_dec": _round_dec, "owner": self._owner,
            "_feq": _feq, "_fne": lambda a, b: not _feq(a, b), "_fle": lambda a, b: a <= b or _feq(a, b),
            "_fge": lambda a, b: a >= b or _feq(a, b), "cos": math.cos, "sin": math.sin, "sqrt": math.sqrt, "pi": math.pi,
            "exp": math.exp,
        }
        if self.exact:
            env.update({"_feq": lambda a, b: a == b, "_fne": lambda a, b: a != b, "_fle": lambda a, b: a <= b,
                        "_fge": lambda a, b: a >= b})
        env.update(self.extra)
        for name in self.reg.macros:
            env[name] = self.macro(name, env)
        return env

    def macro(self, name, env):
        params, body = self.reg.macros[name]

        def call(*args):
            key = ("macro", name)
            if key not in _CODE:
                tree = ast.parse(body.strip(), mode="eval")
                tree = ast.fix_missing_locations(_Tr([]).visit(tree))
                _CODE[key] = compile(tree, "<macro %s>" % name, "eval")
            loc = dict(env)
            loc.update(zip(params, args))
            return eval(_CODE[key], loc)
        return call

    def _oldv(self, x):
        if callable(x) and not hasattr(x, "__dict__"):
            return x
        return self.memo.get(id(x), x) if hasattr(self, "memo") else x

    def _owner(self, part):
        """run-time reading of the ghost ownership map: the unique design whose vector / costs / costs_signed / features is
        `part` (None when no design or more than one design holds it)"""
        owners = []
        seen = set()

        def walk(o, depth):
            if id(o) in seen or depth > 6 or isinstance(o, _ATOMIC):
                return
            seen.add(id(o))
            if hasattr(o, "costs_signed") and hasattr(o, "vector"):
                for a in ("vector", "costs", "costs_signed", "features"):
                    if getattr(o, a, None) is part:
                        owners.append(o)
                        break
            if isinstance(o, (list, tuple)):
                for x in o:
                    walk(x, depth + 1)
            elif isinstance(o, dict):
                for x in o.values():
                    walk(x, depth + 1)
            elif hasattr(o, "__dict__"):
                mod = type(o).__module__ or ""
                if mod.startswith(("logging", "threading", "sqlite3")):
                    return
                for x in vars(o).values():
                    walk(x, depth + 1)
        for v in self.roots:
            walk(v, 0)
        return owners[0] if len(owners) == 1 else None

    def _canon(self, x):
        return self.canon.get(id(x), x)

    def _same(self, a, b):
        return self._canon(a) is self._canon(b)

    def _unchanged(self, lst):
        old = self.memo.get(id(lst))
        if old is None:
            return True     # created during the call
        if len(old) != len(lst):
            return False
        return all((self._same(a, b) or (isinstance(a, (int, float, bool)) and a == b)) for a, b in zip(old, lst))

    def snapshot(self, args):
        self.memo = {}
        self.pre.clear()
        for k, v in args.items():
            self.pre[k] = copy.deepcopy(v, self.memo)
        self.canon = {}
        for oid, cp in self.memo.items():
            self.canon[id(cp)] = _ORIG.get(oid)
        # deepcopy's memo maps id(original) -> copy; we need copy -> original: keep originals alive and indexed
        self._keep = []

    def snapshot_with_originals(self, args):
        """deep copy the arguments remembering, for every copied object, which original it came from"""
        self.memo = {}
        originals = {}

        def collect(o, seen):
            if id(o) in seen or isinstance(o, (int, float, str, bool, type(None))):
                return
            seen.add(id(o))
            originals[id(o)] = o
            if isinstance(o, (list, tuple, set)):
                for x in o:
                    collect(x, seen)
            elif isinstance(o, dict):
                for x in o.values():
                    collect(x, seen)
            elif hasattr(o, "__dict__"):
                for x in vars(o).values():
                    collect(x, seen)
        seen = set()
        for v in args.values():
            collect(v, seen)
        self.pre.clear()
        for k, v in args.items():
            self.pre[k] = _snap(v, self.memo)
        self.canon = {}
        for oid, cp in list(self.memo.items()):
            if oid in originals:
                self.canon[id(cp)] = originals[oid]
        self._originals = originals

    roots = ()

    def eval_clause(self, text, params, env_values):
        self.roots = list(env_values.values()) + list(self.pre.values())
        key = (text, tuple(params))
        code = _CODE.get(key)
        if code is None:
            tree = ast.parse(text.strip(), mode="eval")
            tree = ast.fix_missing_locations(_Tr(params).visit(tree))
            code = _CODE[key] = compile(tree, "<clause>", "eval")
        env = self.base_env()
        env.update(env_values)
        return eval(code, env)


_ORIG = {}
_CODE = {}

"""Run-time harness (runs under /venv/bin/python, where artap and its dependencies live).
  harness.py check <prop> --tier quick|thorough --seed N     all scenarios of the contracts serving <prop>
  harness.py search <target> --budget N                      scenarios of one function (replay search)
  harness.py replay <replay.json>                            re-run a stored failing case
Prints one JSON object on the last line.  Everything here is *bounded* evidence and is reported as such."""
import importlib
import zlib
import json
import os
import random
import sys
import time
import traceback

HERE = os.path.dirname(os.path.dirname(os.path.abspath(__file__)))
sys.path.insert(0, HERE)
os.environ.setdefault("ARTAP_QUIET", "1")

from rt.spec_rt import RtRegistry, Evaluator  # noqa: E402

from rt.registry import SCENARIOS, scenario  # noqa: E402


def load_scenarios():
    import glob
    for p in sorted(glob.glob(os.path.join(HERE, "rt", "scenarios_*.py"))):
        name = "rt." + os.path.basename(p)[:-3]
        importlib.import_module(name)


def short(x, n=300):
    try:
        s = repr(x)
    except Exception:
        s = "<unrepresentable>"
    return s if len(s) <= n else s[:n] + "..."


def run_case(reg, target, case):
    """-> list of failures (clause, observed)"""
    con = reg.contracts[target]
    args = case["args"]
    ev = Evaluator(reg, extra=case.get("extra"), exact=bool(con.get("options", {}).get("exact_floats")))
    params = list(args)
    fails = []
    # preconditions: a case that does not satisfy them is not a test of the function
    for r in con.get("requires", []):
        try:
            ok = ev.eval_clause(r, params, args)
        except Exception as e:
            return None, "precondition not evaluable: %s: %s" % (r, e)
        if not ok:
            return None, "precondition false: " + r
    ev.snapshot_with_originals(dict(args))
    for k in args:
        ev.pre.setdefault(k, args[k])
    raised = None
    result = None
    try:
        result = case["call"](**args)
    except Exception as e:
        raised = e
    env = dict(args)
    env["result"] = result
    if raised is None and case.get("post_extra"):
        env.update(case["post_extra"](args, result))      # run-time witnesses for ghost outputs of the contract
    if raised is not None:
        name = type(raised).__name__
        clauses = con.get("raises", {}).get(name)
        if clauses is None:
            return [{"clause": "no-raise:%s" % name, "observed": "%s: %s" % (name, raised)}], None
    else:
        clauses = con.get("ensures", [])
        rty = con.get("types", {}).get("result")
        if rty == "Bool" and not isinstance(result, (bool,)) and result is not None:
            try:
                import numpy
                if not isinstance(result, numpy.bool_):
                    fails.append({"clause": "post:type", "observed": "result %r is not a bool" % (result,)})
            except ImportError:
                pass
    for c in clauses:
        try:
            ok = ev.eval_clause(c, params, env)
        except Exception as e:
            fails.append({"clause": c, "observed": "clause raised %s: %s" % (type(e).__name__, e)})
            continue
        if not ok:
            fails.append({"clause": c, "observed": "false; result=%s" % short(result, 120)})
    return fails, None


def run_target(reg, target, rng, tier, budget=None, want=None):
    out = {"function": target, "cases": 0, "skipped": 0, "failures": [], "bound": "", "distinct": 0, "sample_cases": []}
    seen = set()
    for gen, bound in SCENARIOS.get(target, []):
        out["bound"] = (out["bound"] + "; " + bound).strip("; ")
        n = 0
        for idx, case in enumerate(gen(rng, tier)):
            if budget is not None and n >= budget:
                break
            if want is not None and idx != want:
                continue
            label = case.get("label", "")
            try:
                fails, skip = run_case(reg, target, case)
            except Exception:
                out["failures"].append({"function": target, "clause": "harness-error", "observed": traceback.format_exc()[-600:],
                                        "input": label, "scenario": gen.__name__, "index": idx})
                break
            n += 1
            if fails is None:
                out["skipped"] += 1
                out.setdefault("skip_reasons", {})
                out["skip_reasons"][skip] = out["skip_reasons"].get(skip, 0) + 1
                continue
            out["cases"] += 1
            if label not in seen:
                seen.add(label)
                if len(out["sample_cases"]) < 3:
                    out["sample_cases"].append({"function": target, "input": short(label, 240)})
            for f in fails:
                per_clause = sum(1 for g in out["failures"] if g["clause"] == f["clause"])
                if per_clause < 2 and len(out["failures"]) < 12:
                    out["failures"].append({"function": target, "clause": f["clause"], "observed": f["observed"],
                                            "input": label, "scenario": gen.__name__, "index": idx})
    out["distinct"] = len(seen)
    return out


def main(argv):
    t0 = time.time()
    reg = RtRegistry().load()
    load_scenarios()
    cmd = argv[0]
    seed = 0
    tier = "quick"
    if "--seed" in argv:
        seed = int(argv[argv.index("--seed") + 1])
    if "--tier" in argv:
        tier = argv[argv.index("--tier") + 1]
    rng = random.Random(seed)
    res = {"status": "ok", "failures": [], "bounded": [], "evaluations": 0, "distinct": 0, "rule": "", "sample_cases": []}
    if cmd == "check":
        prop = argv[1]
        targets = [t for t, c in reg.contracts.items() if prop in c.get("props", []) and t in SCENARIOS]
        for t in targets:
            r = run_target(reg, t, random.Random(seed * 7919 + zlib.crc32(t.encode()) % 1000), tier)
            res["evaluations"] += r["cases"]
            res["distinct"] += r["distinct"]
            res["failures"] += r["failures"]
            res["sample_cases"] += r["sample_cases"]
            res["bounded"].append({"function": t, "cases": r["cases"], "skipped": r["skipped"], "bound": r["bound"],
                                   "skip_reasons": r.get("skip_reasons", {})})
        res["rule"] = "bounded run-time evaluation of the contract clauses on the real functions over generated inputs; " \
                      "distinct = different input labels; never counted as proved"
    elif cmd == "search":
        t = argv[1]
        budget = int(argv[argv.index("--budget") + 1]) if "--budget" in argv else None
        if t in SCENARIOS and t in reg.contracts:
            r = run_target(reg, t, rng, "thorough")
            res["evaluations"] = r["cases"]
            res["failures"] = r["failures"]
    elif cmd == "replay":
        data = json.load(open(argv[1]))
        rp = data.get("replay") or {}
        t = rp.get("function")
        if t in SCENARIOS and t in reg.contracts:
            r = run_target(reg, t, rng, "thorough")
            res["failures"] = [f for f in r["failures"]]
            res["evaluations"] = r["cases"]
    res["wall_s"] = round(time.time() - t0, 2)
    print(json.dumps(res, default=str))


if __name__ == "__main__":
    try:
        main(sys.argv[1:])
    except Exception:
        print(json.dumps({"status": "error", "stderr": traceback.format_exc()[-1500:]}))

"""Per-function verification context: fresh names, initial heap arrays, obligations, decision vector (path enumeration)."""
import z3
from .ty import sort_of, INT


class PathEnd(Exception):
    """the current path ends here (after an invariant was re-established, or an infeasible branch)"""


class ReturnSig(Exception):
    def __init__(self, value):
        self.value = value


class BreakSig(Exception):
    pass


class ContinueSig(Exception):
    pass


class RaiseSig(Exception):
    def __init__(self, exc, line=None):
        self.exc = exc
        self.line = line


class Unsupported(Exception):
    """construct outside the accepted subset -> verdict undecided, never violation"""


class Obligation:
    __slots__ = ("name", "kind", "func", "line", "pc", "goal", "path", "text", "observables", "prop_tags", "split_terms")

    def __init__(self, name, kind, func, line, pc, goal, path, text="", observables=None):
        self.name, self.kind, self.func, self.line = name, kind, func, line
        self.pc, self.goal, self.path, self.text = list(pc), goal, path, text
        self.observables = observables or {}
        self.split_terms = []


EXC_PARENTS = {
    "TimeoutError": ["OSError", "Exception", "BaseException"],
    "OSError": ["Exception", "BaseException"],
    "RuntimeError": ["Exception", "BaseException"],
    "ValueError": ["Exception", "BaseException"],
    "KeyError": ["LookupError", "Exception", "BaseException"],
    "IndexError": ["LookupError", "Exception", "BaseException"],
    "TypeError": ["Exception", "BaseException"],
    "AttributeError": ["Exception", "BaseException"],
    "ZeroDivisionError": ["ArithmeticError", "Exception", "BaseException"],
    "OperationalError": ["Error", "Exception", "BaseException"],
    "Error": ["Exception", "BaseException"],
    "IntegrityError": ["Exception", "BaseException"],
    "OtherError": ["Exception", "BaseException"],
    "Exception": ["BaseException"],
    "KeyboardInterrupt": ["BaseException"],
}


def exc_matches(exc, handler_names):
    if handler_names is None:
        return True
    for h in handler_names:
        if exc == h or h in EXC_PARENTS.get(exc, ["Exception", "BaseException"]):
            return True
    return False


class Ctx:
    def __init__(self, registry, contract, funcname, prop=None):
        self.reg = registry
        self.contract = contract
        self.funcname = funcname
        self.prop = prop
        self.counter = 0
        self.initial = {}
        self.obligations = []
        self.ob_keys = set()
        self.decisions = []      # prefix to follow
        self.taken = []          # (choice, n_options) made in this run
        self.write_logs = []     # stack of sets (dry runs)
        self.dry = 0
        self.float_ops = set()
        self.models_used = set()
        self.assumed = set()
        self.loop_ord = {}
        self.prune = True
        self.prune_timeout = 150
        self.feas_solver = None
        self.cur_line = None
        self.unrolled = set()

    # ---- names
    def fresh(self, base, sort):
        self.counter += 1
        return z3.Const("%s!%d" % (base, self.counter), sort)

    def initial_array(self, key, sort=None):
        if key not in self.initial:
            if key == "$alloc":
                self.initial[key] = z3.Int("$alloc@0")
            elif key.startswith("$cv."):
                self.initial[key] = z3.Const(key + "@0", sort if sort is not None else z3.IntSort())
            else:
                if sort is None:
                    raise KeyError("heap array %s has no known sort" % key)
                self.initial[key] = z3.Const(key + "@0", sort)
        return self.initial[key]

    # ---- write tracking for loop havoc
    def note_write(self, w):
        for s in self.write_logs:
            s.add(w)

    # ---- path decisions
    def choose(self, n, feasible=None):
        """feasible: optional list of callables -> z3 Bool assumption per option, used for pruning"""
        i = len(self.taken)
        if i < len(self.decisions):
            c = self.decisions[i]
        else:
            c = 0
        self.taken.append((c, n))
        return c

    def path_id(self):
        return ".".join(str(c) for c, _ in self.taken) or "-"

    # ---- obligations
    def oblige(self, st, kind, goal, line=None, text="", tag=""):
        if self.dry:
            return
        if z3.is_true(goal):
            # still count it: trivial obligations are discharged syntactically
            pass
        if getattr(st, "qguards", None):
            # raised while evaluating the body of a comprehension / any() / membership test: holds for every element in range
            goal = z3.Implies(z3.And(*st.qguards), goal)
        line = line if line is not None else self.cur_line
        base = "%s/%s%s" % (self.funcname, kind, ("@%s" % line) if line is not None else "")
        if tag:
            base += "/" + tag
        path = self.path_id()
        key = (base, path, text, goal.get_id())     # two different goals from one source line are both kept
        if key in self.ob_keys:
            return
        self.ob_keys.add(key)
        name = base
        from .expr import RD_HINTS
        ob = Obligation(name, kind, self.funcname, line, st.pc, goal, path, text)
        ob.observables = list(RD_HINTS.values())
        ob.split_terms = list(getattr(self, "split_terms", []) or [])
        self.obligations.append(ob)

    def feasible(self, pc):
        """quick pruning check; True unless proved unsat quickly"""
        if not self.prune or self.dry:
            return True
        s = z3.Solver()
        s.set("timeout", self.prune_timeout)
        s.add(*pc)
        try:
            r = s.check()
        except z3.Z3Exception:
            return True
        return r != z3.unsat

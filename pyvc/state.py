"""Symbolic values and symbolic state (heap = one SMT array per field, list contents per element sort)."""
import z3
from .ty import Ty, INT, REAL, BOOL, NONE, STR, sort_of, elem_key


class SV:
    """typed symbolic value.
    int/real/bool/ref/list/str: t = z3 term
    none: t = None
    opt:  t = inner term, aux = z3 Bool 'is None'
    seq:  t = z3 array term, aux = (offset, length)    (immutable value sequence: slices, tuples of numbers)
    tuple: t = python tuple of SV
    """
    __slots__ = ("ty", "t", "aux")

    def __init__(self, ty, t, aux=None):
        self.ty, self.t, self.aux = ty, t, aux

    def __repr__(self):
        return "SV(%r,%s)" % (self.ty, self.t)


class PyVal:
    """interpreter-level pseudo value (range, zip, enumerate, lambda, module, class namespace, constant python object)"""

    def __init__(self, kind, **kw):
        self.kind = kind
        self.__dict__.update(kw)

    def __repr__(self):
        return "PyVal(%s)" % self.kind


_str_ids = {}


def str_id(s):
    if s not in _str_ids:
        _str_ids[s] = len(_str_ids) + 1
    return _str_ids[s]


def str_of_id(i):
    for k, v in _str_ids.items():
        if v == i:
            return k
    return None


def mk_int(t):
    return SV(INT, t if z3.is_expr(t) else z3.IntVal(t))


def mk_real(t):
    if not z3.is_expr(t):
        t = z3.RealVal(repr(t) if isinstance(t, float) else t)
    return SV(REAL, t)


def mk_bool(t):
    return SV(BOOL, t if z3.is_expr(t) else z3.BoolVal(t))


def mk_none():
    return SV(NONE, None)


def mk_str(s):
    return SV(STR, z3.IntVal(str_id(s)), aux=s)


def mk_tuple(items):
    from .ty import Tuple
    return SV(Tuple([i.ty if isinstance(i, SV) else Ty("any") for i in items]), tuple(items))


def mk_seq(elem_ty, arr, off, length):
    from .ty import Seq
    return SV(Seq(elem_ty), arr, (off, length))


class Snapshot:
    __slots__ = ("env", "heap")

    def __init__(self, env, heap):
        self.env, self.heap = dict(env), dict(heap)


class State:
    def __init__(self, ctx):
        self.ctx = ctx
        self.env = {}
        self.heap = {}
        self.pc = []
        self.bound = {}      # quantifier-bound variables currently in scope (spec mode)
        self.entry = None    # Snapshot at function entry
        self.loops = {}      # loop ordinal -> Snapshot before the loop
        self.cur_loop = []   # stack of loop ordinals
        self.exc = None      # exception class being handled (for bare raise)
        self.call_pre = None  # Snapshot before a callee (for old() inside callee ensures)
        self.qdepth = 0      # >0 while translating the body of a quantifier / comprehension

    def snapshot(self):
        return Snapshot(self.env, self.heap)

    def assume(self, f):
        if z3.is_true(f):
            return
        self.pc.append(f)

    # ---- environment
    def get(self, name):
        if name in self.bound:
            return self.bound[name]
        return self.env.get(name)

    def set(self, name, v):
        self.env[name] = v
        self.ctx.note_write(("var", name))

    # ---- heap
    def harr(self, key, sort=None):
        if key in self.heap:
            return self.heap[key]
        return self.ctx.initial_array(key, sort)

    def hset(self, key, term):
        self.heap[key] = term
        self.ctx.note_write(("heap", key))

    def alloc(self):
        return self.harr("$alloc")

    def new_ref(self):
        a = self.alloc()
        self.hset("$alloc", a + 1)
        return a

"""Symbolic values and symbolic state (heap = one SMT array per field, list contents per element sort)."""
import z3
from .ty import Ty, INT, REAL, BOOL, NONE, STR, sort_of, elem_key


class SV:
    """typed symbolic value.
    int/real/bool/ref/list/str: t = z3 term
    none: t = None
    opt:  t = inner term, aux = z3 Bool 'is None'
    seq:  t = z3 array term, aux = (offset, length)    (immutable value sequence: slices, tuples of numbers)
    tuple: t = python tuple of SV
    """
    __slots__ = ("ty", "t", "aux")

    def __init__(self, ty, t, aux=None):
        self.ty, self.t, self.aux = ty, t, aux

    def __repr__(self):
        return "SV(%r,%s)" % (self.ty, self.t)


class PyVal:
    """interpreter-level pseudo value (range, zip, enumerate, lambda, module, class namespace, constant python object)"""

    def __init__(self, kind, **kw):
        self.kind = kind
        self.__dict__.update(kw)

    def __repr__(self):
        return "PyVal(%s)" % self.kind


_str_ids = {}


def str_id(s):
    if s not in _str_ids:
        _str_ids[s] = len(_str_ids) + 1
    return _str_ids[s]


def str_of_id(i):
    for k, v in _str_ids.items():
        if v == i:
            return k
    return None


def mk_int(t):
    return SV(INT, t if z3.is_expr(t) else z3.IntVal(t))


def mk_real(t):
    if not z3.is_expr(t):
        t = z3.RealVal(repr(t) if isinstance(t, float) else t)
    return SV(REAL, t)


def mk_bool(t):
    return SV(BOOL, t if z3.is_expr(t) else z3.BoolVal(t))


def mk_none():
    return SV(NONE, None)


def mk_str(s):
    return SV(STR, z3.IntVal(str_id(s)), aux=s)


def mk_tuple(items):
    from .ty import Tuple
    return SV(Tuple([i.ty if isinstance(i, SV) else Ty("any") for i in items]), tuple(items))


def mk_seq(elem_ty, arr, off, length):
    from .ty import Seq
    return SV(Seq(elem_ty), arr, (off, length))


def _mentions_any(t, ids, memo):
    k = t.get_id()
    if k in memo:
        return memo[k]
    if z3.is_quantifier(t):
        r = _mentions_any(t.body(), ids, memo)
    elif z3.is_const(t):
        r = k in ids
    elif z3.is_app(t):
        r = any(_mentions_any(c, ids, memo) for c in t.children())
    else:
        r = False
    memo[k] = r
    return r


class Snapshot:
    __slots__ = ("env", "heap")

    def __init__(self, env, heap):
        self.env, self.heap = dict(env), dict(heap)


class State:
    def __init__(self, ctx):
        self.ctx = ctx
        self.env = {}
        self.heap = {}
        self.pc = []
        self.bound = {}      # quantifier-bound variables currently in scope (spec mode)
        self.entry = None    # Snapshot at function entry
        self.loops = {}      # loop ordinal -> Snapshot before the loop
        self.cur_loop = []   # stack of loop ordinals
        self.exc = None      # exception class being handled (for bare raise)
        self.call_pre = None  # Snapshot before a callee (for old() inside callee ensures)
        self.qdepth = 0      # >0 while translating the body of a quantifier / comprehension
        self.qids = set()    # z3 ids of the bound constants currently in scope
        self.qguards = []    # range guards of those constants: obligations raised inside the scope are implications

    def snapshot(self):
        return Snapshot(self.env, self.heap)

    def assume(self, f):
        if z3.is_true(f):
            return
        if self.qdepth > 0 and self.qids and _mentions_any(f, self.qids, {}):
            # a fact about a quantifier-bound variable must never become a global assumption (it would capture the variable
            # as a free constant); dropping an assumption is always sound
            self.ctx.dropped_scoped = getattr(self.ctx, "dropped_scoped", 0) + 1
            return
        self.pc.append(f)
        self._note_neq(f, 0)

    def _note_neq(self, f, depth):
        """remember syntactic disequalities of references: rd() uses them to skip stores at provably different objects"""
        from .expr import NEQ
        if depth > 6 or not z3.is_app(f):
            return
        if z3.is_and(f):
            for c in f.children():
                self._note_neq(c, depth + 1)
        elif z3.is_not(f) and z3.is_eq(f.arg(0)):
            a, b = f.arg(0).arg(0), f.arg(0).arg(1)
            if a.sort().kind() == z3.Z3_INT_SORT:
                NEQ.add((a.get_id(), b.get_id()))
                NEQ.add((b.get_id(), a.get_id()))
        elif z3.is_distinct(f) and f.num_args() == 2:
            a, b = f.arg(0), f.arg(1)
            NEQ.add((a.get_id(), b.get_id()))
            NEQ.add((b.get_id(), a.get_id()))

    # ---- environment
    def get(self, name):
        if name in self.bound:
            return self.bound[name]
        return self.env.get(name)

    def set(self, name, v):
        self.env[name] = v
        self.ctx.note_write(("var", name))

    # ---- heap
    def harr(self, key, sort=None):
        if key in self.heap:
            return self.heap[key]
        return self.ctx.initial_array(key, sort)

    def hset(self, key, term):
        self.heap[key] = term
        self.ctx.note_write(("heap", key))

    def alloc(self):
        return self.harr("$alloc")

    def new_ref(self):
        a = self.alloc()
        self.hset("$alloc", a + 1)
        return a

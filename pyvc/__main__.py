import sys
import time
from .load import load_registry
from .frontend import Frontend
from .verify import verify_function, lemma_obligations
from .solve import discharge, shutdown


def dev(argv):
    reg = load_registry()
    fe = Frontend()
    t0 = time.time()
    timeout = 10000
    for target in argv:
        if target.startswith("axiom:"):
            from .verify import axiom_instance_obligations
            ax = reg.axioms[target[6:]]
            obs = []
            for inst in ax.instances:
                obs += axiom_instance_obligations(reg, fe, ax, inst)
            print("== %s" % target)
        elif target.startswith("lemma:"):
            obs = lemma_obligations(reg, fe, reg.lemmas[target[6:]])
            status = "ok"
            print("== %s" % target)
        else:
            con = reg.contracts.get(target) or reg.function_contract(target)
            if con is None:
                print("no contract", target)
                continue
            r = verify_function(reg, fe, con)
            obs = r.obligations
            print("== %s status=%s %s paths=%d obligations=%d %s" % (target, r.status, r.reason, r.paths, len(obs), r.partial or ""))
        for a in sys.argv:
            if a.startswith("--dump="):
                from .solve import to_smt2
                import os
                os.makedirs("/tmp/vc", exist_ok=True)
                for i, ob in enumerate(obs):
                    if a[7:] in ob.name + "/" + ob.path:
                        for k, text in enumerate(to_smt2(ob)):
                            fn = "/tmp/vc/%d_%d.smt2" % (i, k)
                            open(fn, "w").write(text + "(check-sat)\n")
                            print("dumped", ob.name, ob.path, fn)
            if a.startswith("--only="):
                obs = [ob for ob in obs if a[7:] in ob.name + "/" + ob.path]
        if "--list" in sys.argv:
            from collections import Counter
            for (nm, pth), k in sorted(Counter((ob.name, ob.path) for ob in obs).items()):
                print("  %-70s path=%s x%d" % (nm, pth, k))
            continue
        if "--vacuity" in sys.argv:
            import z3
            from .ctx import Obligation
            seen = set()
            vobs = []
            for ob in obs:
                key = (ob.path, len(ob.pc))
                if key in seen:
                    continue
                seen.add(key)
                vobs.append(Obligation(ob.name + "/VACUITY", "vacuity", ob.func, ob.line, ob.pc, z3.BoolVal(False), ob.path, "False"))
            vres = discharge(vobs, timeout_ms=3000, second=False)
            nbad = sum(1 for r in vres if r["verdict"] == "proved")
            print("   vacuity: %d path conditions probed, %d contradictory" % (len(vobs), nbad))
            for ob, r in zip(vobs, vres):
                if r["verdict"] == "proved":
                    print("     CONTRADICTORY assumptions at", ob.name, ob.path)
        res = discharge(obs, timeout_ms=timeout)
        bad = 0
        for ob, rr in zip(obs, res):
            if rr["verdict"] != "proved" or "-v" in sys.argv:
                print("  %-9s %-60s path=%s %5.2fs %s | %s" % (rr["verdict"], ob.name, ob.path, rr["seconds"], rr["backend"], ob.text[:90]))
                if rr["verdict"] == "refuted" and rr.get("model") and "-m" in sys.argv:
                    for k, v in sorted(rr["model"].items()):
                        print("        %s = %s" % (k, v))
            bad += rr["verdict"] != "proved"
        print("   proved %d / %d   (%.1fs)" % (len(obs) - bad, len(obs), time.time() - t0))
    shutdown()


if __name__ == "__main__":
    cmd = sys.argv[1]
    if cmd == "dev":
        dev([a for a in sys.argv[2:] if not a.startswith("-")])
    else:
        from .check import main
        sys.exit(main(sys.argv[1:]))

"""Contract registry: the API used by /verif/contracts/*.py (sidecar contracts; /repo is never edited)."""
import ast
from .ty import parse_ty


class ClassDef:
    def __init__(self, name, bases=(), fields=None, statics=None, rec=False, optional=(), class_vars=None, truth_len=None):
        self.name = name
        self.truth_len = truth_len   # class defines __len__ as len(self.<field>): truth value of an instance
        self.bases = list(bases)
        self.fields = {k: parse_ty(v) for k, v in (fields or {}).items()}
        self.statics = statics or {}
        self.rec = rec              # dict with constant string keys
        self.optional = set(optional)   # keys that may be absent ('k' in d)
        self.class_vars = {k: parse_ty(v) for k, v in (class_vars or {}).items()}   # mutable class attributes


class Contract:
    def __init__(self, target, **kw):
        self.target = target        # "artap.operators:ParetoDominance.compare" or abstract "Dominance.compare"
        self.params = kw.pop("params", None)      # for abstract contracts (no source)
        self.types = {k: parse_ty(v) for k, v in kw.pop("types", {}).items()}
        self.requires = list(kw.pop("requires", []))
        self.ensures = list(kw.pop("ensures", []))
        self.raises = kw.pop("raises", {})        # exc class -> list of ensures on that exit
        self.modifies = list(kw.pop("modifies", []))
        self.loops = kw.pop("loops", {})          # ordinal -> list of invariants
        self.loop_types = kw.pop("loop_types", {})
        self.ghost = kw.pop("ghost", {})          # anchor -> list of ghost statements
        self.hints = kw.pop("hints", {})
        self.returns = kw.pop("returns", None)
        self.allocates = kw.pop("allocates", False)
        self.pure = kw.pop("pure", False)
        self.abstract = kw.pop("abstract", False)
        self.safety = kw.pop("safety", True)
        self.props = kw.pop("props", [])          # property ids this contract serves
        self.locals = {k: parse_ty(v) for k, v in kw.pop("locals", {}).items()}
        self.trusted = kw.pop("trusted", None)    # reason string when the contract is assumed (library / user code)
        self.inline_self = kw.pop("inline_self", None)
        self.ghost_params = {k: parse_ty(v) for k, v in kw.pop("ghost_params", {}).items()}
        self.old_names = kw.pop("old_names", {})
        self.notes = kw.pop("notes", "")
        self.options = kw.pop("options", {})
        self.ghost_results = {k: parse_ty(v) for k, v in kw.pop("ghost_results", {}).items()}
        self.axioms = list(kw.pop("axioms", []))
        if kw:
            raise TypeError("unknown contract keys %s" % list(kw))

    @property
    def module(self):
        return self.target.split(":")[0] if ":" in self.target else None

    @property
    def qualname(self):
        q = self.target.split(":")[1] if ":" in self.target else self.target
        return q.split("#")[0]

    @property
    def tag(self):
        """'module:Class.f#view' is a second contract of the same function, verified on its own and never used at call sites"""
        return self.target.split("#")[1] if "#" in self.target else None


class Macro:
    def __init__(self, name, params, body):
        self.name, self.params, self.body = name, params, body
        self.node = ast.parse(body.strip(), mode="eval").body


class FunDecl:
    """uninterpreted spec function; heap = names of heap arrays it implicitly depends on"""

    def __init__(self, name, params, ret, heap=(), definition=None, by_value=False, prefix_recursive=False):
        # prefix_recursive: f(seq, n) is defined by recursion on n and reads only seq[0..n): the engine then adds the frame
        # axioms "independent of the length argument" and "unchanged by a store at an index >= n" (trusted: induction on n)
        self.prefix_recursive = prefix_recursive
        self.by_value = by_value    # list parameters are passed as (content array, length): the function depends on the value only
        self.name = name
        self.params = [(n, parse_ty(t)) for n, t in params]
        self.ret = parse_ty(ret)
        self.heap = list(heap)
        self.definition = definition  # body text: f(args) == definition (used by `unfold`)


class Lemma:
    def __init__(self, name, vars, hyps, goal, props=(), by="z3", uses=(), axioms=()):
        self.name = name
        self.vars = [(n, parse_ty(t)) for n, t in vars]
        self.hyps = list(hyps)
        self.goal = goal if isinstance(goal, list) else [goal]
        self.props = list(props)
        self.by = by
        self.uses = list(uses)
        self.axioms = list(axioms)


class Axiom:
    """closed formula over declared spec functions; assumed (quantified over heap arrays and vars) in the VCs of the
    contracts that list it, and *proved* for every instance (function symbol -> defining macro) as a refinement obligation"""

    def __init__(self, name, vars, body, instances=(), justification="", props=()):
        self.name = name
        self.vars = [(n, parse_ty(t)) for n, t in vars]
        self.body = body
        self.instances = list(instances)      # list of {fun name: macro name}
        self.justification = justification
        self.props = list(props)


class Registry:
    def __init__(self):
        self.classes = {}
        self.contracts = {}
        self.macros = {}
        self.funs = {}
        self.lemmas = {}
        self.axioms = {}
        self.theories = {}
        self.properties = {}

    # ---- API exposed to contract files
    def classdef(self, name, **kw):
        self.classes[name] = ClassDef(name, **kw)

    def contract(self, target, **kw):
        c = Contract(target, **kw)
        self.contracts[c.qualname if c.abstract or ":" not in target else target] = c
        return c

    def define(self, name, params, body):
        if name in self.macros and (self.macros[name].params, self.macros[name].body) != (list(params), body):
            raise ValueError("macro %s defined twice with different bodies" % name)
        self.macros[name] = Macro(name, params, body)

    def declare_fun(self, name, params, ret, heap=(), definition=None, by_value=False, prefix_recursive=False):
        self.funs[name] = FunDecl(name, params, ret, heap, definition, by_value, prefix_recursive)

    def lemma(self, name, **kw):
        self.lemmas[name] = Lemma(name, **kw)

    def axiom(self, name, **kw):
        self.axioms[name] = Axiom(name, **kw)

    def prop(self, pid, **kw):
        self.properties[pid] = kw

    # ---- lookups
    def class_chain(self, cname):
        out, todo = [], [cname]
        while todo:
            c = todo.pop(0)
            if c in out or c not in self.classes:
                continue
            out.append(c)
            todo.extend(self.classes[c].bases)
        return out

    def field(self, cname, fname):
        """-> (owner class, type) or None"""
        for c in self.class_chain(cname):
            if fname in self.classes[c].fields:
                return c, self.classes[c].fields[fname]
        return None

    def class_var(self, cname, name):
        for c in self.class_chain(cname):
            if name in self.classes[c].class_vars:
                return c, self.classes[c].class_vars[name]
        return None

    def static(self, cname, name):
        for c in self.class_chain(cname):
            if name in self.classes[c].statics:
                return self.classes[c].statics[name]
        return None

    def method_contract(self, cname, mname):
        for c in self.class_chain(cname):
            for key, con in self.contracts.items():
                if con.qualname == "%s.%s" % (c, mname) and con.tag is None:
                    return con
        return None

    def function_contract(self, name):
        for key, con in self.contracts.items():
            if con.qualname == name and con.tag is None:
                return con
        return None

    def api(self):
        return {"classdef": self.classdef, "contract": self.contract, "define": self.define,
                "declare_fun": self.declare_fun, "lemma": self.lemma, "axiom": self.axiom, "prop": self.prop}

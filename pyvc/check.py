"""Property-level driver:  python3-vt -m pyvc check <id> --tier quick|thorough
exit 0 held / 1 violation (VIOLATION line) / 2 undecided / 3 checker error      (DESIGN.md 3.4)"""
import hashlib
import json
import os
import re
import subprocess
import sys
import time
import traceback

import z3

from .load import load_registry, HERE
from .frontend import Frontend
from .verify import verify_function, lemma_obligations, axiom_instance_obligations
from .solve import discharge, shutdown

LOCK = os.path.join(HERE, "contracts", "obligations.lock")
KNOWN = os.path.join(HERE, "known_findings.json")
VENV_PY = "/venv/bin/python"


def ob_key(ob):
    """stable identity of an obligation: function, kind, clause text (no line numbers, no path ids)"""
    return "%s | %s | %s" % (ob.func, ob.kind, re.sub(r"\s+", " ", ob.text))


def load_lock():
    if not os.path.exists(LOCK):
        return {}
    return json.load(open(LOCK))


def load_known():
    if not os.path.exists(KNOWN):
        return {"known": [], "fixed": []}
    return json.load(open(KNOWN))


def closure(reg, prop):
    """contracts / lemmas / axioms serving the property, plus (transitively) every contract assumed by them"""
    own = [c for c in reg.contracts.values() if prop in c.props]
    lemmas = [l for l in reg.lemmas.values() if prop in l.props]
    axioms = [a for a in reg.axioms.values() if prop in a.props]
    return own, lemmas, axioms


def run_rt(args, timeout=600):
    """run the run-time harness under the repository's interpreter; returns parsed JSON or None"""
    cmd = [VENV_PY, os.path.join(HERE, "rt", "harness.py")] + args
    env = dict(os.environ)
    env["PYTHONPATH"] = os.environ.get("PYVC_REPO", "/repo") + os.pathsep + HERE
    env.setdefault("PYTHONDONTWRITEBYTECODE", "1")
    try:
        p = subprocess.run(cmd, capture_output=True, text=True, timeout=timeout, env=env, cwd=HERE)
    except subprocess.TimeoutExpired:
        return {"status": "timeout"}
    last = None
    for line in p.stdout.splitlines():
        if line.startswith("{"):
            last = line
    if last is None:
        return {"status": "error", "stderr": p.stderr[-2000:], "stdout": p.stdout[-500:]}
    try:
        return json.loads(last)
    except ValueError:
        return {"status": "error", "stderr": p.stderr[-2000:]}


def check_property(prop, tier="quick", seed=0, update_lock=False):
    t0 = time.time()
    reg = load_registry()
    fe = Frontend()
    meta = reg.properties.get(prop, {}) if hasattr(reg, "properties") else {}
    own, lemmas, axioms = closure(reg, prop)
    timeout = 20000 if tier == "quick" else 90000
    all_obs = []            # (Obligation, group)
    fun_results = []
    undecided = []
    checker_errors = []
    bounded_only = []
    known_unsupported = []
    for con in own:
        if con.options.get("bounded_only"):
            bounded_only.append(con.target)
            continue
        if con.abstract or con.trusted:
            continue
        try:
            r = verify_function(reg, fe, con, prop)
        except Exception as e:      # engine crash is a checker error, never a violation
            checker_errors.append("%s: %s" % (con.target, traceback.format_exc()[-800:]))
            continue
        fun_results.append(r)
        if r.status != "ok":
            kf = next((k for k in load_known().get("known", []) if k["property"] == prop and k.get("function") == con.target
                       and k.get("accept_unsupported") and re.search(k["accept_unsupported"], r.reason or "")), None)
            if kf is not None:
                # the function cannot be verified BECAUSE of the recorded defect (e.g. it calls a method a float does not have)
                known_unsupported.append(kf)
            else:
                undecided.append({"function": con.target, "status": r.status, "reason": r.reason})
        elif r.partial:
            undecided.append({"function": con.target, "status": "out-of-date", "reason": r.partial})
        for ob in r.obligations:
            all_obs.append((ob, "own" if prop == (con.props[0] if con.props else prop) else "dependency"))
    for lem in lemmas:
        try:
            for ob in lemma_obligations(reg, fe, lem):
                all_obs.append((ob, "lemma"))
        except Exception as e:
            checker_errors.append("lemma %s: %s" % (lem.name, traceback.format_exc()[-800:]))
    for ax in axioms:
        for inst in ax.instances:
            try:
                for ob in axiom_instance_obligations(reg, fe, ax, inst):
                    all_obs.append((ob, "refinement"))
            except Exception as e:
                checker_errors.append("axiom %s: %s" % (ax.name, traceback.format_exc()[-800:]))

    obs = [o for o, _ in all_obs]
    t_vc = time.time() - t0
    results = discharge(obs, timeout_ms=timeout)
    t_solve = time.time() - t0 - t_vc

    # vacuity: path conditions (preconditions + invariants + library assumptions) must not be contradictory
    from .ctx import Obligation
    vac_obs = []
    per_func = {}
    for ob in obs:
        per_func.setdefault(ob.func, {})
        d = per_func[ob.func]
        if ob.path not in d or len(ob.pc) > len(d[ob.path].pc):
            d[ob.path] = ob
    entry_probe = {}
    for func, d in per_func.items():
        picks = sorted(d.values(), key=lambda o: -len(o.pc))[:3 if tier == "quick" else 12]
        # the probe with the SHORTEST path condition of the function: essentially its preconditions
        first = min((o for o in obs if o.func == func), key=lambda o: len(o.pc))
        entry_probe[func] = len(vac_obs)
        vac_obs.append(Obligation(first.name + "/vacuity-entry", "vacuity", func, first.line, first.pc, z3.BoolVal(False), first.path, "False"))
        for ob in picks:
            vac_obs.append(Obligation(ob.name + "/vacuity", "vacuity", ob.func, ob.line, ob.pc, z3.BoolVal(False), ob.path, "False"))
    vac_res = discharge(vac_obs, timeout_ms=2000 if tier == "quick" else 10000, second=False, want_model=False)
    contradictory = [(o, r) for o, r in zip(vac_obs, vac_res) if r["verdict"] == "proved"]
    # a single contradictory path is an INFEASIBLE path of the real code (e.g. the branch where list.remove(x) raises although
    # x was drawn from the list): information, not an error.  The contract is vacuous - an error - when the preconditions
    # themselves are contradictory or when every probed path of a function is.
    vacuity = {"probed": len(vac_obs), "infeasible_paths": [o.name + " path " + o.path for o, r in contradictory], "contradictory": []}
    for func, k in entry_probe.items():
        mine = [(o, r) for o, r in zip(vac_obs, vac_res) if o.func == func]
        if vac_res[k]["verdict"] == "proved" or (mine and all(r["verdict"] == "proved" for o, r in mine)):
            vacuity["contradictory"].append(func)
    for name in vacuity["contradictory"]:
        checker_errors.append("vacuity: contradictory preconditions / all paths infeasible in %s" % name)
    lock = load_lock()
    entry = lock.get(prop, {})
    if isinstance(entry, list):
        entry = {"obligations": entry, "sources": {}}
    locked = set(entry.get("obligations", []))
    locked_src = entry.get("sources", {})
    cur_src = {r.target: r.source_hash for r in fun_results}
    known = load_known()
    known_here = [k for k in known.get("known", []) if k["property"] == prop]

    # an `unknown` on an obligation of a function whose source is byte-identical to the tree the proof was locked on is a
    # solver hiccup (load, scheduling), not evidence about the code: retry alone with a much larger budget
    retry = [k for k, ((ob, group), res) in enumerate(zip(all_obs, results))
             if res["verdict"] == "unknown" and ob_key(ob) in locked and locked_src.get(ob.func) == cur_src.get(ob.func, "?")]
    if retry:
        again = discharge([all_obs[k][0] for k in retry], timeout_ms=max(timeout * 6, 90000))
        for k, r in zip(retry, again):
            r["retried"] = True
            results[k] = r
    failures = []
    for (ob, group), res in zip(all_obs, results):
        if res["verdict"] == "proved":
            continue
        failures.append((ob, group, res))

    rt = None
    if meta.get("runtime"):
        rt = run_rt(["check", prop, "--tier", tier, "--seed", str(seed)], timeout=900 if tier == "quick" else 3600)

    lines = []
    violations = []
    known_hits = []
    undecided_obs = []
    seen_funcs = set()
    for ob, group, res in failures:
        key = ob_key(ob)
        kf = match_known(known_here, ob, key)
        if kf is not None:
            known_hits.append((kf, ob, res))
            continue
        unchanged_src = locked_src.get(ob.func) is not None and locked_src.get(ob.func) == cur_src.get(ob.func, "?")
        if res["verdict"] == "refuted" or (key in locked and not unchanged_src):
            violations.append((ob, res))
        else:
            # never proved before, or the code is unchanged and the solver still did not answer: undecided, not a violation
            undecided_obs.append((ob, res))

    # run-time findings (bounded search over the real code)
    rt_failures = []
    if rt and rt.get("status") == "ok":
        for f in rt.get("failures", []):
            kf = match_known_rt(known_here, f)
            if kf is not None:
                known_hits.append((kf, None, f))
            else:
                rt_failures.append(f)
    elif rt and rt.get("status") not in (None, "ok"):
        checker_errors.append("run-time harness: %s" % json.dumps(rt)[:1500])

    os.makedirs(os.path.join(HERE, "replays", prop), exist_ok=True)
    printed_known = set()
    for kf in known_unsupported:
        known_hits.append((kf, None, None))
    for kf, ob, res in known_hits:
        if kf["id"] not in printed_known:
            printed_known.add(kf["id"])
            lines.append("KNOWN-FINDING: property=%s %s" % (prop, kf["what"]))

    exit_code = 0
    reported = set()
    for ob, res in violations:
        base = ob.name
        if base in reported:
            continue
        reported.add(base)
        replay = find_replay(prop, ob, res, rt_failures)
        path = write_replay(prop, ob, res, replay)
        suffix = "" if replay and replay.get("reproduced") else " no-failing-input-found"
        lines.append("VIOLATION property=%s replay=%s obligation=%s%s" % (prop, path, base, suffix))
        exit_code = 1
    rt_seen = set()
    for f in rt_failures:
        if f.get("_used") or (f.get("function"), f.get("clause")) in rt_seen or f.get("function") in {ob.func for ob, _ in violations}:
            f["_used"] = True
            continue
        rt_seen.add((f.get("function"), f.get("clause")))
        path = write_rt_replay(prop, f)
        lines.append("VIOLATION property=%s replay=%s obligation=runtime:%s" % (prop, path, f.get("function")))
        exit_code = 1
    if exit_code == 0 and (undecided or undecided_obs):
        exit_code = 2
    if checker_errors:
        exit_code = 3 if exit_code == 0 else exit_code

    if update_lock:
        lock[prop] = {"obligations": sorted({ob_key(ob) for (ob, g), res in zip(all_obs, results) if res["verdict"] == "proved"}),
                      "sources": {r.target: r.source_hash for r in fun_results}}
        json.dump(lock, open(LOCK, "w"), indent=0, sort_keys=True)

    write_evidence(prop, tier, seed, reg, meta, fun_results, all_obs, results, known_hits, violations, undecided,
                   undecided_obs, checker_errors, rt, time.time() - t0, own, lemmas, axioms, vacuity, bounded_only)
    if os.environ.get("PYVC_TIMING"):
        print("timing: vcgen %.1fs solve %.1fs total %.1fs" % (t_vc, t_solve, time.time() - t0))
    for l in lines:
        print(l)
    n_ok = sum(1 for r in results if r["verdict"] == "proved")
    print("property %s: %d/%d obligations discharged, %d known findings, %d violations, %d undecided, exit %d (%.1fs)" % (
        prop, n_ok, len(results), len(printed_known), len(reported) + len([f for f in rt_failures if not f.get('_used')]),
        len(undecided) + len(undecided_obs), exit_code, time.time() - t0))
    for u in undecided:
        print("  undecided: %s %s %s" % (u["function"], u["status"], u["reason"]))
    for ob, res in undecided_obs[:20]:
        print("  undecided obligation: %s [%s] %s" % (ob.name, res["verdict"], ob.text[:100]))
    for c in checker_errors:
        print("  checker error: %s" % c)
    return exit_code


def match_known(known_here, ob, key):
    for k in known_here:
        if k.get("function") and k["function"] != ob.func:
            continue
        pats = k.get("obligations", [])
        for p in pats:
            if re.search(p, ob.name) or re.search(p, key):
                return k
    return None


def match_known_rt(known_here, f):
    for k in known_here:
        for p in k.get("runtime", []):
            if re.search(p, "%s %s" % (f.get("function"), f.get("clause", ""))):
                return k
    return None


def find_replay(prop, ob, res, rt_failures):
    """a run-time contract failure of the same function on the real code is the replay of the failed obligation"""
    for f in rt_failures:
        if f.get("function") == ob.func:
            f["_used"] = True
            return dict(f, reproduced=True)
    # targeted search for this function
    r = run_rt(["search", ob.func, "--budget", "20"], timeout=300)
    if r and r.get("status") == "ok" and r.get("failures"):
        return dict(r["failures"][0], reproduced=True)
    return {"reproduced": False, "search": r}


def write_replay(prop, ob, res, replay):
    d = os.path.join(HERE, "replays", prop)
    os.makedirs(d, exist_ok=True)
    name = re.sub(r"[^A-Za-z0-9_.#@-]+", "_", ob.name)[-150:]
    path = os.path.join(d, name + ".json")
    json.dump({"property": prop, "obligation": ob.name, "function": ob.func, "kind": ob.kind, "clause": ob.text,
               "path": ob.path, "solver": {k: res.get(k) for k in ("verdict", "backend", "seconds", "reason", "model")},
               "replay": replay,
               "rerun": "python3-vt -m pyvc replay %s" % path}, open(path, "w"), indent=1, default=str)
    return path


def write_rt_replay(prop, f):
    d = os.path.join(HERE, "replays", prop)
    os.makedirs(d, exist_ok=True)
    name = re.sub(r"[^A-Za-z0-9_.#@-]+", "_", "runtime_%s_%s" % (f.get("function"), f.get("clause", "")))[-150:]
    path = os.path.join(d, name + ".json")
    json.dump({"property": prop, "obligation": "runtime:%s" % f.get("function"), "replay": dict(f, reproduced=True),
               "rerun": "python3-vt -m pyvc replay %s" % path}, open(path, "w"), indent=1, default=str)
    return path


def write_evidence(prop, tier, seed, reg, meta, fun_results, all_obs, results, known_hits, violations, undecided,
                   undecided_obs, checker_errors, rt, wall, own, lemmas, axioms, vacuity=None, bounded_only=()):
    n = len(results)
    ok = sum(1 for r in results if r["verdict"] == "proved")
    backends = {}
    for r in results:
        if r["verdict"] == "proved":
            backends[r["backend"]] = backends.get(r["backend"], 0) + 1
    samples = []
    for (ob, group), r in list(zip(all_obs, results))[:400]:
        samples.append({"name": ob.name, "function": ob.func, "kind": ob.kind, "group": group, "path": ob.path,
                        "clause": ob.text[:160], "backend": r["backend"], "verdict": r["verdict"], "seconds": r["seconds"]})
    funcs = []
    float_ops, models, assumed = [], set(), set()
    for r in fun_results:
        funcs.append({"function": r.target, "source_sha256_16": r.source_hash, "status": r.status, "reason": r.reason,
                      "paths": r.paths, "loops": r.n_loops, "obligations": len(r.obligations), "region": r.region})
        float_ops += ["%s:%s %s" % (f.split(":")[-1], l, o) for f, l, o in r.float_ops]
        models |= set(r.models_used)
        assumed |= set(r.assumed)
    own_targets = {c.target for c in own}
    trusted = []
    for t in sorted(assumed):
        if t.startswith("lemma:") or t.startswith("axiom:"):
            continue
        con = reg.contracts.get(t) or reg.function_contract(t)
        if con is None:
            continue
        if con.trusted:
            trusted.append("assumed contract (%s): %s" % (con.trusted, con.target))
        elif con.abstract:
            trusted.append("abstract contract %s (refinements proved as obligations of kind 'refines')" % con.target)
        elif con.target not in own_targets:
            trusted.append("contract of %s used at call sites but NOT re-verified under this property" % con.target)
    assumptions = list(meta.get("assumptions", []))
    assumptions += ["A1 machine arithmetic treated as mathematical (real) arithmetic at: " + ", ".join(sorted(set(float_ops))[:60])] if float_ops else []
    assumptions += ["library model: " + m for m in sorted(models)]
    assumptions += trusted
    assumptions += ["A6 termination is not proved (partial correctness)",
                    "A7 the VC generator (pyvc) is trusted; it is cross-checked by seeded mutants and by run-time contract evaluation on the real code"]
    ev = {
        "property_id": prop, "tier": tier, "seed": seed,
        "level": meta.get("level", "proof"),
        "coverage": {
            "obligations": n, "discharged": ok,
            "checker_cmd": "python3-vt -m pyvc check %s --tier %s" % (prop, tier),
            "trusted_base": ["z3 5.1.0 (python API)", "z3 4.8.12 / cvc5 1.0.3 binaries as fall-back", "pyvc VC generator"] + trusted,
            "backends": backends,
            "solver_seconds": round(sum(r["seconds"] for r in results), 2),
            "functions_under_contract": funcs,
            "lemmas": [l.name for l in lemmas],
            "refinement_axioms": [a.name for a in axioms],
            "samples": samples,
            "explanation": meta.get("explanation", ""),
            "bounded": (rt or {}).get("bounded", []),
            "runtime_contract_evaluations": (rt or {}).get("evaluations", 0),
            "not_decided": meta.get("not_decided", []),
            "known_findings": sorted({k["what"] for k, _, _ in known_hits}),
            "undecided": undecided + [{"obligation": ob.name, "verdict": r["verdict"]} for ob, r in undecided_obs],
            "checker_errors": checker_errors,
            "vacuity": vacuity,
            "bounded_only_functions": list(bounded_only),
            "extraction_drops": "docstrings, annotations, print/logger calls ignored; time.time() is a fresh real; calls are "
                                "replaced by contracts; constructs outside the subset make the function undecided",
        },
        "assumptions": assumptions,
        "wall_s": round(wall, 2),
        "violations": len({ob.name for ob, _ in violations}),
    }
    if rt and rt.get("status") == "ok":
        ev["coverage"]["evaluations"] = rt.get("evaluations", 0)
        ev["coverage"]["distinct_nontrivial"] = rt.get("distinct", 0)
        ev["coverage"]["rule"] = rt.get("rule", "")
        # actual run-time cases of this run (input labels), next to the sampled obligations
        ev["coverage"]["samples"] = ev["coverage"]["samples"][:400] + [
            {"runtime_case": c} for c in rt.get("sample_cases", [])]
    os.makedirs(os.path.join(HERE, "evidence"), exist_ok=True)
    json.dump(ev, open(os.path.join(HERE, "evidence", prop + ".json"), "w"), indent=1, default=str)


def main(argv):
    cmd = argv[0]
    seed = int(os.environ.get("VERIF_SEED", "0") or 0)
    if cmd == "check":
        prop = argv[1]
        tier = os.environ.get("VERIF_TIER") or "quick"
        if "--tier" in argv:
            tier = argv[argv.index("--tier") + 1]
        try:
            code = check_property(prop, tier, seed, update_lock="--update-lock" in argv)
        except Exception:
            traceback.print_exc()
            code = 3
        shutdown()
        return code
    if cmd == "replay":
        data = json.load(open(argv[1]))
        print(json.dumps(data.get("replay"), indent=1))
        rp = data.get("replay") or {}
        if rp.get("reproduced") and rp.get("function"):
            r = run_rt(["replay", argv[1]])
            print(json.dumps(r, indent=1))
            return 1 if r and r.get("failures") else 0
        return 0
    print("usage: pyvc check <id> [--tier quick|thorough] | replay <file> | dev <target>...")
    return 3

"""Load the sidecar contract files."""
import glob
import os
from .spec import Registry

HERE = os.path.dirname(os.path.dirname(os.path.abspath(__file__)))


def load_registry():
    reg = Registry()
    api = reg.api()
    files = sorted(glob.glob(os.path.join(HERE, "contracts", "*.py")))
    # classes first
    files.sort(key=lambda p: (0 if os.path.basename(p).startswith("00_") else 1, p))
    g = dict(api)     # one namespace for all contract files (helpers defined in earlier files stay visible)
    for p in files:
        if os.path.basename(p).startswith("harness_") or os.path.basename(p).startswith("_"):
            continue
        g["__file__"] = p
        exec(compile(open(p).read(), p, "exec"), g)
    return reg

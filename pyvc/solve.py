"""Discharge obligations on a process pool."""
import multiprocessing
import os
import time
from concurrent.futures import ProcessPoolExecutor
import z3
from .worker import solve


def to_smt2(ob):
    s = z3.Solver()
    for f in ob.pc:
        s.add(f)
    s.add(z3.Not(ob.goal))
    return s.to_smt2().replace("(check-sat)\n", "")


_pool = None


def pool():
    global _pool
    if _pool is None:
        n = int(os.environ.get("PYVC_JOBS", "0")) or min(16, os.cpu_count() or 4)
        _pool = ProcessPoolExecutor(max_workers=n, mp_context=multiprocessing.get_context("spawn"))
    return _pool


def discharge(obligations, timeout_ms=10000, second=True, want_model=True):
    """-> list of result dicts aligned with obligations"""
    tasks, results = [], [None] * len(obligations)
    for i, ob in enumerate(obligations):
        if z3.is_true(ob.goal):
            results[i] = {"name": ob.name, "verdict": "proved", "backend": "syntactic", "seconds": 0.0, "model": None, "reason": ""}
            continue
        tasks.append((i, (ob.name, to_smt2(ob), timeout_ms, want_model, second)))
    if tasks:
        if len(tasks) <= 2 or os.environ.get("PYVC_SERIAL"):
            for i, t in tasks:
                results[i] = solve(t)
        else:
            futs = [(i, pool().submit(solve, t)) for i, t in tasks]
            for i, f in futs:
                results[i] = f.result()
    return results


def shutdown():
    global _pool
    if _pool is not None:
        _pool.shutdown(wait=False, cancel_futures=True)
        _pool = None

"""Discharge obligations on a process pool."""
import multiprocessing
import os
import time
from concurrent.futures import ProcessPoolExecutor
import z3
from .worker import solve


_fresh = [0]


def expand_goal(goal, hyps=(), limit=24):
    """split a goal into sub-goals: implications move to the hypotheses, universals are skolemised with fresh
    constants (so that their instances are ground terms), conjunctions are split -> list of (hyps, atom)"""
    out = []

    def rec(g, hs):
        if len(out) > limit:
            out.append((hs, g))
            return
        if z3.is_implies(g):
            return rec(g.arg(1), hs + [g.arg(0)])
        if z3.is_and(g) and g.num_args() > 0:
            for c in g.children():
                rec(c, hs)
            return
        if z3.is_quantifier(g) and g.is_forall():
            consts = []
            for i in range(g.num_vars()):
                _fresh[0] += 1
                consts.append(z3.Const("sk!%s!%d" % (g.var_name(i), _fresh[0]), g.var_sort(i)))
            body = z3.substitute_vars(g.body(), *reversed(consts))
            return rec(body, hs)
        if z3.is_not(g) and z3.is_quantifier(g.arg(0)) and g.arg(0).is_exists():
            q = g.arg(0)
            consts = []
            for i in range(q.num_vars()):
                _fresh[0] += 1
                consts.append(z3.Const("sk!%s!%d" % (q.var_name(i), _fresh[0]), q.var_sort(i)))
            body = z3.substitute_vars(q.body(), *reversed(consts))
            return rec(z3.Not(body), hs)
        out.append((hs, g))
    rec(goal, list(hyps))
    return out


_HINT_CACHE = {}      # formula id -> (formula kept alive, hint terms found inside it); path conditions are shared by many obligations
_HINT_APP = {}        # term id -> (term, hint application)


def _hint_terms(formulas):
    out, seen = [], set()
    for f in formulas:
        k = f.get_id()
        ent = _HINT_CACHE.get(k)
        if ent is None or not ent[0].eq(f):
            ent = (f, _hint_terms_of([f]))
            if len(_HINT_CACHE) > 200000:
                _HINT_CACHE.clear()
            _HINT_CACHE[k] = ent
        for t in ent[1]:
            if t.get_id() not in seen:
                seen.add(t.get_id())
                out.append(t)
    return out


def _hint_app(t):
    ent = _HINT_APP.get(t.get_id())
    if ent is None or not ent[0].eq(t):
        h = z3.Function("hint!" + str(t.sort()).replace(" ", "_").replace("(", "<").replace(")", ">"), t.sort(), z3.BoolSort())
        if len(_HINT_APP) > 200000:
            _HINT_APP.clear()
        ent = (t, h(t))
        _HINT_APP[t.get_id()] = ent
    return ent[1]


def _hint_terms_of(formulas):
    """ground, trigger-eligible terms that occur only inside quantifier bodies are invisible to E-matching;
    collect them so that they can be registered as ground terms (hint assertions carry no logical content)"""
    found = {}
    memo = {}

    def has_var(t):
        k = t.get_id()
        if k in memo:
            return memo[k]
        if z3.is_var(t):
            r = True
        elif z3.is_quantifier(t):
            r = True
        else:
            r = any(has_var(c) for c in t.children())
        memo[k] = r
        return r

    seen = set()

    def walk(t, inside):
        k = (t.get_id(), inside)
        if k in seen:
            return
        seen.add(k)
        if z3.is_quantifier(t):
            walk(t.body(), True)
            return
        if z3.is_var(t):
            return
        if inside and z3.is_app(t) and t.num_args() > 0 and not has_var(t):
            if t.decl().kind() in (z3.Z3_OP_SELECT, z3.Z3_OP_UNINTERPRETED):
                found[t.get_id()] = t
        for c in t.children():
            walk(c, inside)
    for f in formulas:
        walk(f, False)
    return list(found.values())


def to_smt2_parts(pc, hyps, atom, extra_hints=(), split_terms=()):
    fs = [f for f in list(pc) + list(hyps) + [z3.Not(atom)] if not z3.is_true(f)]
    hints = _hint_terms(fs) + list(extra_hints)
    seen = set()
    for t in hints:
        if t.get_id() not in seen:
            seen.add(t.get_id())
            fs.append(_hint_app(t))
    for t in split_terms:
        fs.append(z3.Function("split!Int", z3.IntSort(), z3.BoolSort())(t))
    # the same text Solver.to_smt2() would print, without adding the assertions to a solver one by one
    ctx = z3.main_ctx()
    n = len(fs) - 1
    arr = (z3.Ast * n)()
    for i in range(n):
        arr[i] = fs[i].as_ast()
    text = z3.Z3_benchmark_to_smtlib_string(ctx.ref(), "pyvc", "", "unknown", "", n, arr, fs[-1].as_ast())
    return text.replace("(check-sat)\n", "")


def to_smt2(ob):
    parts = expand_goal(ob.goal)
    return [to_smt2_parts(ob.pc, hs, atom, ob.observables or (), getattr(ob, "split_terms", None) or ()) for hs, atom in parts]


_pool = None


def _die_with_parent():
    """a worker must not outlive the checker (a killed or timed-out check would otherwise leave solver processes behind)"""
    try:
        import ctypes
        import signal
        ctypes.CDLL("libc.so.6", use_errno=True).prctl(1, signal.SIGKILL)      # PR_SET_PDEATHSIG
    except Exception:
        pass


def pool():
    global _pool
    if _pool is None:
        n = int(os.environ.get("PYVC_JOBS", "0")) or min(16, os.cpu_count() or 4)
        _pool = ProcessPoolExecutor(max_workers=n, mp_context=multiprocessing.get_context("spawn"), initializer=_die_with_parent)
    return _pool


_canon_memo = {}


def canon(t):
    """alpha-normal form of a formula: bound-variable names, patterns and qids are ignored (z3 bodies are de Bruijn terms)"""
    k = t.get_id()
    r = _canon_memo.get(k)
    if r is not None:
        return r
    if z3.is_quantifier(t):
        r = hash(("Q", t.is_forall(), t.is_lambda() if hasattr(t, "is_lambda") else False, t.num_vars(),
                  tuple(str(t.var_sort(i)) for i in range(t.num_vars())), canon(t.body())))
    elif z3.is_var(t):
        r = hash(("V", z3.get_var_index(t), str(t.sort())))
    elif z3.is_app(t):
        d = t.decl()
        if t.num_args() == 0:
            r = hash(("C", str(t), str(t.sort())))
        else:
            r = hash(("A", d.name(), d.kind(), tuple(canon(c) for c in t.children())))
    else:
        r = hash(("X", str(t)))
    if len(_canon_memo) > 400000:
        _canon_memo.clear()
    _canon_memo[k] = r
    return r


def syntactically_implied(pc, hyps, atom):
    """the goal literally occurs (up to renaming of bound variables) among the hypotheses or their top-level conjuncts"""
    target = canon(atom)
    stack = list(pc) + list(hyps)
    seen = 0
    while stack and seen < 20000:
        h = stack.pop()
        seen += 1
        if canon(h) == target:
            return True
        if z3.is_and(h):
            stack.extend(h.children())
    return False


def discharge(obligations, timeout_ms=10000, second=True, want_model=True):
    """-> list of result dicts aligned with obligations"""
    tasks, results = [], [None] * len(obligations)
    for i, ob in enumerate(obligations):
        if z3.is_true(ob.goal):
            results[i] = {"name": ob.name, "verdict": "proved", "backend": "syntactic", "seconds": 0.0, "model": None, "reason": ""}
            continue
        if syntactically_implied(ob.pc, [], ob.goal):
            results[i] = {"name": ob.name, "verdict": "proved", "backend": "syntactic(alpha-equivalent hypothesis)", "seconds": 0.0,
                          "model": None, "reason": "", "parts": 1}
            continue
        parts = expand_goal(ob.goal)
        pending = []
        for hs, atom in parts:
            if syntactically_implied(ob.pc, hs, atom):
                continue
            pending.append(to_smt2_parts(ob.pc, hs, atom, ob.observables or (), getattr(ob, "split_terms", None) or ()))
        if not pending:
            results[i] = {"name": ob.name, "verdict": "proved", "backend": "syntactic(alpha-equivalent hypothesis)", "seconds": 0.0,
                          "model": None, "reason": "", "parts": len(parts)}
            continue
        for text in pending:
            tasks.append((i, (ob.name, text, timeout_ms, want_model, second)))
    if tasks:
        if len(tasks) <= 2 or os.environ.get("PYVC_SERIAL"):
            subs = [(i, solve(t)) for i, t in tasks]
        else:
            futs = [(i, pool().submit(solve, t)) for i, t in tasks]
            subs = [(i, f.result()) for i, f in futs]
        # an obligation is proved when every sub-goal is; refuted when some sub-goal is refuted
        for i, r in subs:
            cur = results[i]
            if cur is None:
                results[i] = dict(r, parts=1)
                continue
            cur["parts"] += 1
            cur["seconds"] = round(cur["seconds"] + r["seconds"], 3)
            rank = {"refuted": 0, "unknown": 1, "proved": 2}
            if rank[r["verdict"]] < rank[cur["verdict"]]:
                keep = cur["parts"], cur["seconds"]
                cur.update(r)
                cur["parts"], cur["seconds"] = keep
    return results


def shutdown():
    global _pool
    if _pool is not None:
        _pool.shutdown(wait=False, cancel_futures=True)
        _pool = None

"""VC generation for one function under contract; lemma VCs."""
import ast
import z3
from .ty import Ty, INT, REAL, BOOL, Ref, parse_ty, sort_of
from .state import SV, PyVal, State, Snapshot, mk_int, mk_real, mk_bool, mk_none, mk_tuple
from .ctx import Ctx, Obligation, Unsupported, RaiseSig, PathEnd, ReturnSig, BreakSig, ContinueSig
from .expr import ExprMixin, is_sv
from .calls import CallMixin
from .stmt import StmtMixin
from .frontend import Frontend

MAX_PATHS = 3000


class Interp(ExprMixin, CallMixin, StmtMixin):
    def __init__(self, reg, frontend, contract, ctx):
        self.reg = reg
        self.frontend = frontend
        self.contract = contract
        self.ctx = ctx
        self.check_index = contract.safety
        self.check_div = contract.options.get('check_div', False)
        self.float_div = contract.options.get('float_div', 'real')
        self.mul_mode = contract.options.get('mul', 'real')
        self.slices_allocate = False
        self.module_consts = {}
        self.empty_list_types = {}
        self.ghost_at = {}
        self.loop_ord = {}
        self.cur_class = None
        self.pending_list_type = None
        self.module_imports = {}


class FunctionResult:
    def __init__(self, target):
        self.target = target
        self.obligations = []
        self.status = "ok"          # ok | unsupported | missing | out-of-date
        self.reason = ""
        self.paths = 0
        self.source_hash = None
        self.float_ops = []
        self.models_used = []
        self.assumed = []
        self.n_loops = 0
        self.partial = None
        self.region = None


def resolve_anchor(fn, anchor):
    """anchor 'after:<text>' / 'before:<text>' [#n] -> (when, lineno); text is matched against unparsed statements"""
    when, _, rest = anchor.partition(":")
    nth = 1
    if "##" in rest:
        rest, _, k = rest.rpartition("##")
        nth = int(k)
    rest = rest.strip()
    count = 0
    for node in ast.walk(fn):
        if isinstance(node, ast.stmt) and not isinstance(node, (ast.FunctionDef, ast.ClassDef)):
            try:
                txt = ast.unparse(node).split("\n")[0]
            except Exception:
                continue
            if rest in txt:
                count += 1
                if count == nth:
                    return when, node.lineno
    return None


def verify_function(reg, frontend, con, prop=None):
    res = FunctionResult(con.target)
    try:
        fn = frontend.function_node(con)
    except (LookupError, FileNotFoundError) as e:
        res.status, res.reason = "missing", str(e)
        return res
    res.source_hash = frontend.source_hash(con)
    funcname = con.target
    from .expr import RD_HINTS, NEQ
    RD_HINTS.clear()
    NEQ.clear()
    ctx = Ctx(reg, con, funcname, prop)
    it = Interp(reg, frontend, con, ctx)
    it.loop_ord, res.n_loops = frontend.loop_ordinals(fn)
    for n in con.loops:
        if n > res.n_loops:
            res.status, res.reason = "out-of-date", "contract names loop #%d but the function has %d loops" % (n, res.n_loops)
            return res
    it.module_imports = frontend.imports(con.module)
    for k, v in frontend.module_constants(con.module).items():
        it.module_consts[k] = mk_int(v) if isinstance(v, int) else mk_real(v)
    for anchor, stmts in con.ghost.items():
        r = resolve_anchor(fn, anchor)
        if r is None:
            # the statement the ghost code was attached to is gone: verify the rest, but the result can at best be
            # "undecided" (the ghost assertion was not checked) unless some other obligation fails
            res.partial = "ghost anchor %r not found in the function (contract out of date)" % anchor
            continue
        it.ghost_at.setdefault(r, []).extend(stmts)
    for anchor, ty in con.loop_types.items():
        pass
    for anchor, ty in getattr(con, "empty_lists", {}).items() if hasattr(con, "empty_lists") else []:
        pass
    parts = con.qualname.split(".")
    cls = parts[-2] if len(parts) >= 2 else None
    it.cur_class = cls
    params = [a.arg for a in fn.args.args]
    defaults = {}
    is_static = frontend.is_staticmethod(fn)
    is_cm = frontend.is_classmethod(fn)

    body_fn = fn
    region = con.options.get("region")
    if region:
        # verify only part of a function: one statement ("text"), or everything from a top-level statement to the end
        # ("from:text").  Used where the rest is outside the subset, or to split a long proof into sequential steps whose
        # intermediate assertion is the ensures of one step and the requires of the next (stated in the evidence).
        tail = region.startswith("from:")
        text = region[5:] if tail else region
        hit = resolve_anchor(fn, "at:" + text)
        if hit is None:
            res.status, res.reason = "out-of-date", "region %r not found" % region
            return res
        target_line = hit[1]
        if tail:
            idx = next((k for k, n in enumerate(fn.body) if getattr(n, "lineno", None) == target_line), None)
            if idx is None:
                res.status, res.reason = "out-of-date", "region %r is not a top-level statement" % region
                return res
            stmts = fn.body[idx:]
        else:
            stmts = [next(n for n in ast.walk(fn) if isinstance(n, ast.stmt) and getattr(n, "lineno", None) == target_line
                          and text in ast.unparse(n).split("\n")[0])]
        body_fn = ast.FunctionDef(name=fn.name, args=fn.args, body=stmts, decorator_list=fn.decorator_list, lineno=fn.lineno)
        res.region = "only %s line %d (%s) of %s is verified under this contract" % (
            "the statements from" if tail else "the statement at", target_line, text, con.qualname)
        # loop ordinals are those of the whole function (contracts name them that way)
    stack = [[]]
    try:
        while stack:
            prefix = stack.pop()
            ctx.decisions, ctx.taken = prefix, []
            res.paths += 1
            if res.paths > MAX_PATHS:
                raise Unsupported("more than %d paths" % MAX_PATHS)
            st = State(ctx)
            st.assume(st.alloc() >= 1)
            for i, p in enumerate(params):
                if i == 0 and cls is not None and not is_static:
                    if is_cm:
                        st.env[p] = PyVal("class", name=cls)
                        continue
                    ty = con.types.get(p, Ref(cls))
                else:
                    ty = con.types.get(p)
                if ty is None:
                    if p in con.options.get("unused_params", ()):
                        # a parameter the body never reads (callers pass anything): any use makes the function unsupported
                        st.env[p] = PyVal("opaque", name=p)
                        continue
                    raise Unsupported("parameter %s has no declared type" % p)
                st.env[p] = it.fresh_value(ty, p, st)
            for g, ty in con.ghost_params.items():
                st.env[g] = it.fresh_value(ty, g, st)
            st.entry = st.snapshot()
            for a in con.axioms:
                st.assume(axiom_formula(it, reg.axioms[a]))
            for r in con.requires:
                st.assume(it.truthy(it.spec_text(r, st), st))
            st.entry = Snapshot(st.env, st.heap)
            run_path(it, body_fn, st, con)
            for i in range(len(prefix), len(ctx.taken)):
                c, nopt = ctx.taken[i]
                for alt in range(1, nopt):
                    stack.append([t[0] for t in ctx.taken[:i]] + [alt])
    except Unsupported as e:
        res.status, res.reason = "unsupported", "%s (line %s)" % (e, ctx.cur_line)
    except RecursionError as e:
        res.status, res.reason = "unsupported", "recursion limit"
    except (AttributeError, TypeError, KeyError, IndexError, z3.Z3Exception, ValueError) as e:
        # an engine failure on unexpected source is "undecided", never a verdict
        import traceback
        res.status, res.reason = "unsupported", "engine error %s: %s (line %s) %s" % (
            type(e).__name__, e, ctx.cur_line, traceback.format_exc().strip().split("\n")[-3].strip())
    res.obligations = ctx.obligations
    res.float_ops = sorted(ctx.float_ops, key=lambda t: (t[1] or 0, t[2]))
    res.models_used = sorted(ctx.models_used)
    res.assumed = sorted(ctx.assumed)
    return res


def run_path(it, fn, st, con):
    ctx = it.ctx
    try:
        try:
            it.exec_block(fn.body, st)
            result = mk_none()
        except ReturnSig as r:
            result = r.value
        check_post(it, st, con, result)
    except PathEnd:
        return
    except RaiseSig as r:
        if r.exc in con.raises:
            st.env["_k"] = st.env.get("_k", mk_int(0))
            for i, e in enumerate(con.raises[r.exc]):
                g = it.truthy(it.spec_text(e, st), st)
                ctx.oblige(st, "raises:%s" % r.exc, g, line=r.line, text=e, tag="#%d" % i)
            check_frame(it, st, con, "frame:%s" % r.exc)
        else:
            ctx.oblige(st, "no-raise:%s" % r.exc, z3.BoolVal(False), line=r.line,
                       text="exception %s is not among the documented outcomes" % r.exc)
    except (BreakSig, ContinueSig):
        raise Unsupported("break/continue outside a loop")


def _base_key(key):
    return key[:-1] if key.endswith("?") else (key[:-2] if key.endswith("!s") else key)


def frame_allowed(it, con, key, r, st):
    """disjunction of the locations of heap array `key` that the contract's modifies clauses permit to change (entry state)"""
    import ast as _ast
    base = _base_key(key)
    tmp = State(it.ctx)
    tmp.env = dict(st.entry.env)
    tmp.heap = dict(st.entry.heap)
    tmp.entry = st.entry
    alts = []
    i = it.ctx.fresh("i", z3.IntSort())
    for m in con.modifies:
        m = m.strip()
        if m == base or m == key:
            return None
        if m.startswith("$"):
            continue
        if m.count(".") == 1 and m.split(".")[0] in it.reg.classes and tmp.env.get(m.split(".")[0]) is None:
            fk = it.field_key(*m.split("."))
            if fk and fk[0] == base:
                return None
            continue
        node = _ast.parse(m, mode="eval").body
        if isinstance(node, _ast.Call) and isinstance(node.func, _ast.Name) and node.func.id == "listof":
            inner = node.args[0]
            lst = it.ev(inner.value.args[0], tmp, True)
            e, arr, off, ln = it.seq_of(lst, tmp, True)
            fkey, fty = it.field_key(e.arg, inner.attr)
            if base in (it.content_key(fty.arg), it.len_key(fty.arg)):
                farr = tmp.harr(fkey, it.heap_sort(fkey))
                alts.append(z3.Exists([i], z3.And(0 <= i, i < ln, farr[arr[i + off]] == r)))
            continue
        if isinstance(node, _ast.Call) and isinstance(node.func, _ast.Name) and node.func.id == "list":
            lst = it.ev(node.args[0], tmp, True)
            if base in (it.content_key(lst.ty.arg), it.len_key(lst.ty.arg)):
                alts.append(r == lst.t)
            continue
        if isinstance(node, _ast.Attribute):
            base_node, fname = node.value, node.attr
        elif isinstance(node, _ast.Subscript):
            base_node, fname = node.value, node.slice.value
        else:
            raise Unsupported("modifies clause %r" % m)
        path = [fname]
        each = None
        bn = base_node
        if isinstance(bn, _ast.Attribute) and isinstance(bn.value, _ast.Call) and getattr(bn.value.func, "id", None) == "each":
            path = [bn.attr, fname]
            each = bn.value
        elif isinstance(bn, _ast.Call) and getattr(bn.func, "id", None) == "each":
            each = bn
        if each is not None:
            lst = it.ev(each.args[0], tmp, True)
            e, arr, off, ln = it.seq_of(lst, tmp, True)
            if len(path) == 1:
                fk = it.field_key(e.arg, path[0])
                if fk[0] == base:
                    alts.append(z3.Exists([i], z3.And(0 <= i, i < ln, arr[i + off] == r)))
            else:
                k1, t1 = it.field_key(e.arg, path[0])
                fk = it.field_key(t1.arg, path[1])
                if fk[0] == base:
                    a1 = tmp.harr(k1, it.heap_sort(k1))
                    alts.append(z3.Exists([i], z3.And(0 <= i, i < ln, a1[arr[i + off]] == r)))
            continue
        obj = it.ev(base_node, tmp, True)
        fk = it.field_key(obj.ty.arg, fname)
        if fk and fk[0] == base:
            alts.append(r == obj.t)
    return alts


def check_frame(it, st, con, kind="frame", assume_keys=None):
    """everything outside the modifies clauses (and outside objects allocated by this call) is unchanged.
    With assume_keys the same formulas are *assumed* for the given (just havocked) arrays: the frame condition is an
    implicit invariant of every loop (asserted again at each back edge)."""
    ctx = it.ctx
    if con.options.get("no_frame_check") or con.target.startswith("lemma:"):
        return
    a0 = st.entry.heap.get("$alloc", ctx.initial_array("$alloc"))
    fully_framed = set()
    for key in sorted(set(st.heap) | set(st.entry.heap)):
        if key == "$alloc":
            continue
        cur = st.heap.get(key)
        old = st.entry.heap.get(key, ctx.initial.get(key))
        if cur is None or old is None or cur is old or cur.eq(old):
            fully_framed.add(key)
            continue
        if assume_keys is not None and key not in assume_keys:
            continue
        if key.startswith("$cv."):
            if key in con.modifies:
                continue
            if assume_keys is not None:
                st.assume(cur == old)
            else:
                ctx.oblige(st, kind, cur == old, line=None, text="class variable %s unchanged" % key[4:], tag=key)
            continue
        r = ctx.fresh("r", z3.IntSort())
        alts = frame_allowed(it, con, key, r, st)
        if alts is None:
            continue
        from .calls import pattern_ok
        pats = [t for t in (cur[r], old[r]) if pattern_ok(t)]
        body = z3.Or(r >= a0, r < 1, cur[r] == old[r], *alts)
        goal = z3.ForAll([r], body, patterns=pats[:1]) if pats else z3.ForAll([r], body)
        if assume_keys is not None:
            st.assume(goal)
            if not alts:
                fully_framed.add(key)
            continue
        ctx.oblige(st, kind, goal, line=None, text="only the locations named in `modifies` change in %s" % key, tag=key)
    if assume_keys is not None:
        spec_fun_frames(it, st, fully_framed, a0)


def spec_fun_frames(it, st, framed, a0):
    """heap-dependent uninterpreted spec functions (acmp, cmp_ok, ...) keep their value on arguments that existed at function
    entry when every heap array they read is unchanged on all objects that existed then (only new objects were added).
    Footprint assumption: a spec function reads only objects allocated in the heap it is applied to."""
    ctx = it.ctx
    for name, fd in sorted(it.reg.funs.items()):
        if fd.by_value or not fd.heap or fd.definition:
            continue
        if any(k not in framed and (k in st.heap and st.entry.heap.get(k, ctx.initial.get(k)) is not None and
                                    not st.heap[k].eq(st.entry.heap.get(k, ctx.initial.get(k)))) for k in fd.heap):
            continue
        cur = [st.harr(k, it.heap_sort(k)) for k in fd.heap]
        old = [st.entry.heap.get(k, ctx.initial_array(k, it.heap_sort(k))) for k in fd.heap]
        if all(c.eq(o) for c, o in zip(cur, old)):
            continue
        from .ty import sort_of
        dom = [h.sort() for h in cur] + [sort_of(t) for _, t in fd.params]
        f = z3.Function(fd.name, *(dom + [sort_of(fd.ret)]))
        vs = [z3.Const("ff_%s_%s" % (name, n), sort_of(t)) for n, t in fd.params]
        guard = [z3.And(v >= 1, v < a0) for v, (n, t) in zip(vs, fd.params) if t.kind in ("ref", "list")]
        ax = z3.ForAll(vs, z3.Implies(z3.And(*guard) if guard else z3.BoolVal(True), f(*(cur + vs)) == f(*(old + vs))),
                       patterns=[f(*(cur + vs))], qid="specfun_frame_" + name)
        st.assume(ax)
        ctx.models_used.add("spec function %s: value on pre-existing arguments is unchanged when only new objects were added to the "
                            "heap arrays it reads (footprint assumption)" % name)


def check_post(it, st, con, result):
    ctx = it.ctx
    rty = con.types.get("result")
    if rty is not None and is_sv(result):
        try:
            result = it.coerce(result, rty, st)
        except Unsupported:
            ctx.oblige(st, "post:type", z3.BoolVal(False), text="returned value has type %r, contract says %r" % (result.ty, rty))
            return
    st.env["result"] = result
    for gname, gty in con.ghost_results.items():
        if gname not in st.env:
            st.env[gname] = it.fresh_value(gty, "g_" + gname, st)      # a ghost output that this path never produced
    line = ctx.cur_line
    for i, e in enumerate(con.ensures):
        g = it.truthy(it.spec_text(e, st), st)
        ctx.oblige(st, "post", g, line=line, text=e, tag="#%d" % i)
    check_frame(it, st, con)


def axiom_formula(it, ax):
    """forall heap arrays, vars. body"""
    ctx = it.ctx
    saved = ctx.initial
    ctx.initial = {}
    try:
        tmp = State(ctx)
        tmp.entry = tmp.snapshot()
        consts = []
        for n, t in ax.vars:
            c = z3.Const("ax_%s_%s" % (ax.name, n), sort_of(t))
            consts.append(c)
            tmp.bound[n] = SV(t, c)
        body = it.truthy(it.spec_text(ax.body, tmp), tmp)
        heap_consts = [v for k, v in ctx.initial.items()]
    finally:
        ctx.initial = saved
    ctx.assumed.add("axiom:" + ax.name)
    return z3.ForAll(heap_consts + consts, body)


def axiom_instance_obligations(reg, frontend, ax, inst):
    import re
    from .spec import Lemma
    body = ax.body
    for fun, mac in inst.items():
        body = re.sub(r"\b%s\(" % re.escape(fun), mac + "(", body)
    lem = Lemma("%s[%s]" % (ax.name, ",".join("%s:=%s" % kv for kv in inst.items())),
                vars=[(n, repr(t)) for n, t in ax.vars], hyps=[], goal=body, props=ax.props)
    obs = lemma_obligations(reg, frontend, lem, kind="refines")
    return obs


def lemma_obligations(reg, frontend, lem, kind="lemma"):
    """a lemma is a closed formula: forall vars. hyps -> goal, proved by the SMT back end over the same spec language"""
    from .spec import Contract
    dummy = Contract("lemma:" + lem.name, params=[])
    ctx = Ctx(reg, dummy, "lemma:" + lem.name)
    it = Interp(reg, frontend, dummy, ctx)
    st = State(ctx)
    st.assume(st.alloc() >= 1)
    for n, t in lem.vars:
        st.env[n] = it.fresh_value(t, n, st)
    st.entry = st.snapshot()
    for a in lem.axioms:
        st.assume(axiom_formula(it, reg.axioms[a]))
    for u in lem.uses:
        it.use_lemma(u, st)
    for h in lem.hyps:
        st.assume(it.truthy(it.spec_text(h, st), st))
    for i, g in enumerate(lem.goal):
        ctx.oblige(st, kind, it.truthy(it.spec_text(g, st), st), line=None, text=g, tag="#%d" % i)
    return ctx.obligations

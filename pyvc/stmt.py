"""Statement execution (single path per run; branching via ctx.choose and re-execution)."""
import ast
import z3
from .ty import Ty, INT, REAL, BOOL, NONE, STR, Ref, List, Seq, Opt, Tuple, sort_of, elem_key, parse_ty
from .state import SV, PyVal, State, Snapshot, mk_int, mk_real, mk_bool, mk_none, mk_str, mk_tuple, mk_seq
from .ctx import Unsupported, RaiseSig, PathEnd, ReturnSig, BreakSig, ContinueSig, exc_matches
from .expr import is_sv, _ix, rd

MAX_UNROLL = 8


def _consts_of(t, acc=None, seen=None):
    acc = [] if acc is None else acc
    seen = set() if seen is None else seen
    if t.get_id() in seen:
        return acc
    seen.add(t.get_id())
    if z3.is_const(t) and t.decl().kind() == z3.Z3_OP_UNINTERPRETED:
        acc.append(t)
    for c in t.children():
        _consts_of(c, acc, seen)
    return acc


class StmtMixin:
    def exec_block(self, stmts, st):
        for s in stmts:
            self.exec_stmt(s, st)

    def exec_stmt(self, node, st):
        self.ctx.cur_line = getattr(node, "lineno", self.ctx.cur_line)
        m = getattr(self, "st_" + node.__class__.__name__, None)
        if m is None:
            raise Unsupported("statement %s" % node.__class__.__name__)
        self.run_ghost(("before", node.lineno), st)
        m(node, st)
        self.run_ghost(("after", node.lineno), st)

    def run_ghost(self, anchor, st):
        """ghost statements / hints attached by line *ordinal anchors* resolved by the frontend"""
        for g in self.ghost_at.get(anchor, ()):
            self.exec_ghost(g, st)

    def exec_ghost(self, text, st):
        text = text.strip()
        if text.startswith("assume "):
            # only generated from `unfold`/lemma hints whose instances are justified separately
            raise Unsupported("raw assume in ghost code")
        if text.startswith("assert "):
            g = self.truthy(self.spec_text(text[7:], st), st)
            self.ctx.oblige(st, "ghost-assert", g, text=text[7:])
            st.assume(g)
            return
        if text.startswith("unfold "):
            st.assume(self.truthy(self.spec_text("unfold(%s)" % text[7:], st), st))
            return
        if text.startswith("sum_first "):
            # library fact of sum(): for a non-empty range the first element can be split off (trusted, induction on the length)
            v = self.ev(ast.parse(text[10:].strip(), mode="eval").body, st, True)
            e, arr, off, ln = self.seq_of(v, st, True)
            f = self.sum_fun()
            self.sum_axioms(st)
            st.assume(z3.Implies(ln > 0, f(arr, off, off + ln) == arr[off] + f(arr, off + 1, off + ln)))
            self.ctx.models_used.add("sum(list): first element can be split off (sum_first hint; trusted)")
            return
        if text.startswith("set_owner("):
            call = ast.parse(text, mode="eval").body
            part, who = self.ev(call.args[0], st, True), self.ev(call.args[1], st, True)
            arr = st.harr("$owner", z3.ArraySort(z3.IntSort(), z3.IntSort()))
            st.hset("$owner", z3.Store(arr, part.t, who.t))
            return
        if text.startswith("use "):
            # use lemma_name(args): instantiate a proved lemma
            self.use_lemma(text[4:], st)
            return
        # ghost assignment  name = expr
        node = ast.parse(text).body[0]
        if isinstance(node, ast.Assign) and isinstance(node.targets[0], ast.Name):
            st.set(node.targets[0].id, self.ev(node.value, st, True))
            return
        if isinstance(node, ast.Assign) and isinstance(node.targets[0], ast.Attribute):
            # ghost field update:  obj.ghost_x = expr   (only fields whose name starts with ghost_)
            t = node.targets[0]
            if not t.attr.startswith("ghost_"):
                raise Unsupported("ghost code may only assign ghost_* fields")
            obj = self.ev(t.value, st, True)
            self.write_field(obj, t.attr, self.ev(node.value, st, True), st)
            return
        raise Unsupported("ghost statement %r" % text)

    def use_lemma(self, text, st):
        call = ast.parse(text.strip(), mode="eval").body
        lem = self.reg.lemmas[call.func.id]
        args = [self.ev(a, st, True) for a in call.args]
        saved = st.bound
        st.bound = dict(saved)
        for (n, t), a in zip(lem.vars, args):
            st.bound[n] = self.coerce(a, t, st)
        try:
            hyps = [self.truthy(self.spec_text(h, st), st) for h in lem.hyps]
            goals = [self.truthy(self.spec_text(g, st), st) for g in lem.goal]
        finally:
            st.bound = saved
        self.ctx.assumed.add("lemma:" + lem.name)
        st.assume(z3.Implies(z3.And(*hyps) if hyps else z3.BoolVal(True), z3.And(*goals)))

    # ------------------------------------------------------------------ simple statements
    def st_Pass(self, node, st):
        pass

    def st_Expr(self, node, st):
        if isinstance(node.value, ast.Constant):
            return
        self.ev(node.value, st)

    def st_Return(self, node, st):
        v = self.ev(node.value, st) if node.value is not None else mk_none()
        raise ReturnSig(v)

    def st_Break(self, node, st):
        raise BreakSig()

    def st_Continue(self, node, st):
        raise ContinueSig()

    def st_Assert(self, node, st):
        g = self.truthy(self.ev(node.test, st), st)
        self.ctx.oblige(st, "assert", g, text=ast.unparse(node.test))
        st.assume(g)

    def st_Raise(self, node, st):
        if node.exc is None:
            raise RaiseSig(st.exc or "Exception", node.lineno)
        e = node.exc
        name = None
        if isinstance(e, ast.Call) and isinstance(e.func, ast.Name):
            name = e.func.id
        elif isinstance(e, ast.Name):
            name = e.id
        if name is None:
            raise Unsupported("raise expression")
        raise RaiseSig(name, node.lineno)

    def target_type(self, t, st):
        if isinstance(t, ast.Name):
            ty = self.contract.locals.get(t.id)
            return ty.arg if ty is not None and ty.kind == "opt" else ty
        if isinstance(t, (ast.Tuple, ast.List)):
            return None
        try:
            if isinstance(t, ast.Attribute):
                obj = self.ev(t.value, st)
                f = self.reg.field(obj.ty.arg, t.attr) if is_sv(obj) and obj.ty.kind == "ref" else None
                return (f[1].arg if f[1].kind == "opt" else f[1]) if f else None
            if isinstance(t, ast.Subscript) and isinstance(t.slice, ast.Constant) and isinstance(t.slice.value, str):
                obj = self.ev(t.value, st)
                f = self.reg.field(obj.ty.arg, t.slice.value) if is_sv(obj) and obj.ty.kind == "ref" else None
                return (f[1].arg if f[1].kind == "opt" else f[1]) if f else None
        except Unsupported:
            return None
        return None

    def st_Assign(self, node, st):
        self.pending_list_type = self.target_type(node.targets[0], st)
        try:
            v = self.ev(node.value, st)
        finally:
            self.pending_list_type = None
        for t in node.targets:
            self.assign(t, v, st)

    def st_AnnAssign(self, node, st):
        if node.value is not None:
            self.assign(node.target, self.ev(node.value, st), st)

    def st_AugAssign(self, node, st):
        if isinstance(node.target, ast.Name):
            cur = self.ev(ast.Name(id=node.target.id, ctx=ast.Load()), st)
            v = self.binop(node.op, cur, self.ev(node.value, st), st, False, node)
            self.assign(node.target, v, st)
            return
        # attribute / subscript targets: evaluate the location once
        load = ast.parse(ast.unparse(node.target), mode="eval").body
        ast.copy_location(load, node)
        for n in ast.walk(load):
            if not hasattr(n, "lineno"):
                n.lineno = node.lineno
        cur = self.ev(load, st)
        rhs = self.ev(node.value, st)
        if is_sv(cur) and cur.ty.kind == "ref" and isinstance(node.op, ast.Add):
            con = self.reg.method_contract(cur.ty.arg, "__iadd__")
            if con is None:
                raise Unsupported("+= on %r without an __iadd__ contract" % (cur.ty,))
            v = self.apply_contract(con, [cur, rhs], {}, st, "%s.__iadd__" % cur.ty.arg)
            self.assign(node.target, v, st)
            return
        v = self.binop(node.op, cur, rhs, st, False, node)
        self.assign(node.target, v, st)

    def st_Delete(self, node, st):
        for t in node.targets:
            if isinstance(t, ast.Subscript) and not isinstance(t.slice, ast.Slice):
                lst = self.ev(t.value, st)
                if not (is_sv(lst) and lst.ty.kind == "list"):
                    raise Unsupported("del on %r" % (lst,))
                ln = self.list_len(lst, st)
                idx = self.norm_index(t.slice, ln, st, False)
                self.list_delete(lst, idx, st)
            else:
                raise Unsupported("del target")

    def assign(self, target, v, st):
        if isinstance(target, ast.Name):
            if isinstance(v, PyVal) and v.kind not in ("range", "lambda", "const", "emptydict", "zip", "enumerate", "ns", "boundmethod",
                                                       "func", "class"):
                raise Unsupported("assignment of %r" % v)
            if is_sv(v):
                decl = self.contract.locals.get(target.id)
                if decl is not None:
                    v = self.coerce(v, decl, st)
                elif v.ty.kind == "list" and v.ty.arg.kind == "any":
                    pass
            st.set(target.id, v)
            return
        if isinstance(target, (ast.Tuple, ast.List)):
            self.bind_target(target, v, st)
            return
        if isinstance(target, ast.Attribute):
            obj = self.ev(target.value, st)
            if isinstance(obj, PyVal) and obj.kind == "class":
                cv = self.reg.class_var(obj.name, target.attr)
                if cv is None:
                    raise Unsupported("assignment to class attribute %s.%s" % (obj.name, target.attr))
                st.hset("$cv.%s.%s" % (cv[0], target.attr), self.coerce(v, cv[1], st).t)
                return
            if is_sv(obj) and obj.ty.kind == "opt":
                obj = self.unopt(obj, st, False)
            if not (is_sv(obj) and obj.ty.kind == "ref"):
                raise Unsupported("attribute store on %r" % (obj,))
            self.write_field(obj, target.attr, self.fix_empty(v, obj.ty.arg, target.attr), st)
            return
        if isinstance(target, ast.Subscript):
            base = self.ev(target.value, st)
            if is_sv(base) and base.ty.kind == "opt":
                base = self.unopt(base, st, False)
            if is_sv(base) and base.ty.kind == "ref" and isinstance(target.slice, ast.Constant) and isinstance(target.slice.value, str):
                key = target.slice.value
                cd = self.reg.classes.get(base.ty.arg)
                self.write_field(base, key, self.fix_empty(v, base.ty.arg, key), st)
                if cd is not None and key in cd.optional:
                    hk = "%s.has_%s" % (cd.name, key)
                    arr = st.harr(hk, z3.ArraySort(z3.IntSort(), z3.BoolSort()))
                    st.hset(hk, z3.Store(arr, base.t, z3.BoolVal(True)))
                return
            if is_sv(base) and base.ty.kind == "list":
                if isinstance(target.slice, ast.Slice):
                    raise Unsupported("slice assignment")
                ety = base.ty.arg
                ln = self.list_len(base, st)
                idx = self.norm_index(target.slice, ln, st, False)
                arr = rd(self.content_arr(ety, st), base.t)
                val = self.coerce(v, ety, st)
                self.list_set_content(base, z3.Store(arr, idx, val.t), None, st)
                return
            raise Unsupported("subscript store on %r" % (base,))
        raise Unsupported("assignment target %s" % target.__class__.__name__)

    def fix_empty(self, v, cname, fname):
        """an empty list literal of unknown element type takes the declared type of the field it is stored to"""
        if is_sv(v) and v.ty.kind == "list" and v.ty.arg.kind == "any":
            f = self.reg.field(cname, fname)
            if f is not None:
                ty = f[1].arg if f[1].kind == "opt" else f[1]
                if ty.kind == "list":
                    return SV(ty, v.t)
        return v

    def bind_target(self, target, v, st, bound=False):
        if isinstance(target, ast.Name):
            if bound:
                st.bound[target.id] = v
            else:
                st.set(target.id, v)
            return
        if isinstance(target, (ast.Tuple, ast.List)):
            if is_sv(v) and v.ty.kind == "tuple":
                if len(v.t) != len(target.elts):
                    raise Unsupported("tuple unpack arity")
                for t, x in zip(target.elts, v.t):
                    self.bind_target(t, x, st, bound)
                return
            if is_sv(v) and v.ty.kind in ("list", "seq"):
                e, arr, off, ln = self.seq_of(v, st)
                if not bound:
                    self.ctx.oblige(st, "safe:unpack", ln == len(target.elts), text="unpack length")
                for i, t in enumerate(target.elts):
                    self.bind_target(t, SV(e, arr[_ix(z3.IntVal(i), off)]), st, bound)
                return
        if isinstance(target, (ast.Subscript, ast.Attribute)) and not bound:
            # a, b = x, y evaluates the right-hand side completely before any store (v already holds the values)
            self.assign(target, v, st)
            return
        raise Unsupported("binding target")

    # ------------------------------------------------------------------ control flow
    def st_If(self, node, st):
        c = self.truthy(self.ev(node.test, st), st)
        c = z3.simplify(c) if not z3.is_quantifier(c) else c
        if z3.is_true(c):
            return self.exec_block(node.body, st)
        if z3.is_false(c):
            return self.exec_block(node.orelse, st)
        ch = self.ctx.choose(2)
        if ch == 0:
            st.assume(c)
            self.check_feasible(st)
            self.exec_block(node.body, st)
        else:
            st.assume(z3.Not(c))
            self.check_feasible(st)
            self.exec_block(node.orelse, st)

    def check_feasible(self, st):
        if not self.ctx.feasible(st.pc):
            raise PathEnd()

    def st_Try(self, node, st):
        if node.finalbody:
            raise Unsupported("try/finally")
        try:
            self.exec_block(node.body, st)
        except RaiseSig as r:
            for h in node.handlers:
                names = None
                if h.type is not None:
                    if isinstance(h.type, ast.Tuple):
                        names = [self.exc_name(e) for e in h.type.elts]
                    else:
                        names = [self.exc_name(h.type)]
                caught = exc_matches(r.exc, names)
                if not caught and r.exc == "OtherError" and names is not None:
                    # OtherError stands for ANY exception class outside the ones a contract names (e.g. FileNotFoundError, ValueError):
                    # a handler for some other class (OSError, LookupError, ...) catches SOME of them, so both outcomes are explored
                    narrow = {"TimeoutError", "RuntimeError", "OperationalError", "IntegrityError"}
                    if any(n not in narrow for n in names) and self.ctx.choose(2) == 1:
                        caught = True
                if caught:
                    saved = st.exc
                    st.exc = r.exc
                    if h.name:
                        st.set(h.name, PyVal("const", value="<exception>"))
                    try:
                        self.exec_block(h.body, st)
                    finally:
                        st.exc = saved
                    return
            raise
        else:
            self.exec_block(node.orelse, st)

    def exc_name(self, n):
        if isinstance(n, ast.Name):
            return n.id
        if isinstance(n, ast.Attribute):
            return n.attr
        raise Unsupported("exception type expression")

    # ------------------------------------------------------------------ loops
    def iter_view(self, it, st):
        """-> dict(kind, length(st) -> z3 Int or None when live, elem(k, st) -> value, live list SV or None)"""
        if isinstance(it, PyVal):
            if it.kind == "range":
                n = z3.simplify(it.hi - it.lo)
                n = z3.If(n >= 0, n, 0) if not (z3.is_int_value(n) and n.as_long() >= 0) else n
                return {"len": lambda s: n, "elem": lambda k, s: mk_int(it.lo + k), "live": None}
            if it.kind == "enumerate":
                inner = self.iter_view(it.inner, st)
                return {"len": inner["len"], "elem": lambda k, s: mk_tuple([mk_int(k), inner["elem"](k, s)]), "live": inner["live"]}
            if it.kind == "zip":
                parts = [self.iter_view(p, st) for p in it.parts]

                def ln(s):
                    ls = [p["len"](s) for p in parts]
                    acc = ls[0]
                    for l in ls[1:]:
                        acc = z3.If(l < acc, l, acc)
                    return z3.simplify(acc)
                return {"len": ln, "elem": lambda k, s: mk_tuple([p["elem"](k, s) for p in parts]),
                        "live": next((p["live"] for p in parts if p["live"] is not None), None)}
            if it.kind == "listof":
                return self.iter_view(it.value, st)
            raise Unsupported("iteration over %r" % it)
        if it.ty.kind == "opt":
            it = self.unopt(it, st, False)
        if it.ty.kind == "list":
            return {"len": lambda s: self.list_len(it, s), "elem": lambda k, s: self.list_elem(it, k, s), "live": it}
        if it.ty.kind == "seq":
            e, arr, off, ln = self.seq_of(it, st)

            def el(k, s):
                v = SV(e, rd(arr, _ix(k, off)))
                if e.kind in ("ref", "list"):
                    s.assume(z3.And(v.t >= 1, v.t < s.alloc()))
                return v
            return {"len": lambda s: ln, "elem": el, "live": None}
        if it.ty.kind == "tuple":
            items = list(it.t)
            return {"len": lambda s: z3.IntVal(len(items)), "elem": None, "items": items, "live": None}
        if it.ty.kind == "ref":
            con = self.reg.method_contract(it.ty.arg, "__iter__")
            if con is not None and con.returns:
                saved = st.env
                st.env = {"self": it}
                try:
                    inner = self.spec_text(con.returns, st)
                finally:
                    st.env = saved
                return self.iter_view(inner, st)
        raise Unsupported("iteration over %r" % (it.ty,))

    def st_For(self, node, st):
        n = self.loop_ordinal(node)
        if isinstance(node.iter, (ast.List, ast.Tuple)) and len(node.iter.elts) <= MAX_UNROLL:
            it = mk_tuple([self.ev(e, st) for e in node.iter.elts])     # `for s in [-1, 1]`: a literal is unrolled
        else:
            it = self.ev(node.iter, st)
        view = self.iter_view(it, st)
        invs = self.contract.loops.get(n)
        if invs is None:
            # constant-length iteration is unrolled exactly
            ln = z3.simplify(view["len"](st))
            if z3.is_int_value(ln) and ln.as_long() <= MAX_UNROLL and (view["live"] is None or "items" in view):
                return self.unroll_for(node, view, ln.as_long(), st)
            raise Unsupported("loop #%d (line %d) has no invariant in the contract" % (n, node.lineno))
        if "items" in view:
            raise Unsupported("invariant loop over a tuple")
        kname = "_k%d" % n
        st.loops[n] = st.snapshot()
        itv = it
        while isinstance(itv, PyVal) and itv.kind == "enumerate":
            itv = itv.inner
        if is_sv(itv):
            st.env["_it%d" % n] = itv
        st.env[kname] = mk_int(0)
        st.cur_loop.append(n)
        try:
            self.check_invariants(n, invs, st, "inv-init")
            written = self.dry_run(lambda s: self.loop_body_once(node, view, kname, s, dry=True), st, key=n)
            self.havoc_written(written, st, n)
            self.loop_frame(st, written, None)
            k = self.ctx.fresh(kname, z3.IntSort())
            st.env[kname] = mk_int(k)
            st.assume(k >= 0)
            fixed_len = view["live"] is None or ("heap", self.len_key(view["live"].ty.arg)) not in written
            if fixed_len:
                st.assume(k <= view["len"](st))
            self.assume_invariants(n, invs, st)
            ch = self.ctx.choose(2)
            if ch == 0:
                st.assume(k < view["len"](st))
                self.check_feasible(st)
                try:
                    self.loop_body_once(node, view, kname, st)
                except BreakSig:
                    st.cur_loop.pop()
                    return
                st.env[kname] = mk_int(k + 1)
                self.check_invariants(n, invs, st, "inv-keep")
                self.loop_frame(st, written, "inv-keep-frame#%d" % n)
                raise PathEnd()
            else:
                st.assume(k >= view["len"](st))
                self.check_feasible(st)
        except PathEnd:
            raise
        st.cur_loop.pop()
        self.exec_block(node.orelse, st)

    def loop_body_once(self, node, view, kname, st, dry=False):
        k = st.env[kname].t
        self.bind_target(node.target, view["elem"](k, st), st)
        try:
            self.exec_block(node.body, st)
        except ContinueSig:
            pass

    def unroll_for(self, node, view, count, st):
        for i in range(count):
            v = view["items"][i] if "items" in view else view["elem"](z3.IntVal(i), st)
            self.bind_target(node.target, v, st)
            try:
                self.exec_block(node.body, st)
            except ContinueSig:
                continue
            except BreakSig:
                return
        self.exec_block(node.orelse, st)

    def st_While(self, node, st):
        n = self.loop_ordinal(node)
        invs = self.contract.loops.get(n)
        if invs is None:
            raise Unsupported("while loop #%d (line %d) has no invariant" % (n, node.lineno))
        st.loops[n] = st.snapshot()
        st.cur_loop.append(n)
        kname = "_k%d" % n
        st.env[kname] = mk_int(0)
        self.check_invariants(n, invs, st, "inv-init")
        written = self.dry_run(lambda s: self.while_body_once(node, s), st, key=n)
        self.havoc_written(written, st, n)
        self.loop_frame(st, written, None)
        k = self.ctx.fresh(kname, z3.IntSort())
        st.env[kname] = mk_int(k)
        st.assume(k >= 0)
        self.assume_invariants(n, invs, st)
        c = self.truthy(self.ev(node.test, st), st)
        ch = self.ctx.choose(2)
        if ch == 0:
            st.assume(c)
            self.check_feasible(st)
            try:
                self.while_body_once(node, st, guard_done=True)
            except BreakSig:
                st.cur_loop.pop()
                return
            st.env[kname] = mk_int(k + 1)
            self.check_invariants(n, invs, st, "inv-keep")
            self.loop_frame(st, written, "inv-keep-frame#%d" % n)
            raise PathEnd()
        st.assume(z3.Not(c))
        self.check_feasible(st)
        st.cur_loop.pop()
        self.exec_block(node.orelse, st)

    def while_body_once(self, node, st, guard_done=False):
        if not guard_done:
            c = self.truthy(self.ev(node.test, st), st)
            st.assume(c)
        try:
            self.exec_block(node.body, st)
        except ContinueSig:
            pass

    def loop_frame(self, st, written, kind):
        """the function's frame condition as an implicit loop invariant (assumed after the havoc, asserted at back edges)"""
        if self.ctx.dry or st.entry is None:
            return
        from .verify import check_frame
        keys = {name for k, name in written if k == "heap" and name != "$alloc"}
        if kind is None:
            check_frame(self, st, self.contract, assume_keys=keys)
        else:
            check_frame(self, st, self.contract, kind=kind)

    def loop_ordinal(self, node):
        return self.loop_ord[id(node)]

    def inv_env(self, n, st):
        st.env["_k"] = st.env["_k%d" % n]
        if "_it%d" % n in st.env:
            st.env["_it"] = st.env["_it%d" % n]

    def check_invariants(self, n, invs, st, kind):
        self.inv_env(n, st)
        self.ctx.split_terms = self.split_candidates(n, st) if kind == "inv-keep" else []
        try:
            self._check_invariants(n, invs, st, kind)
        finally:
            self.ctx.split_terms = []

    def split_candidates(self, n, st):
        """integer terms on which a skolemised range invariant is worth case-splitting at a back edge: the index of the element
        just processed (counter before the increment and every integer local that is a function of it)"""
        kv = st.env.get("_k%d" % n)
        if kv is None or not z3.is_expr(kv.t):
            return []
        prev = z3.simplify(kv.t - 1)
        out, seen = [prev], {prev.get_id()}
        ks = [c for c in _consts_of(prev)]
        for name, v in st.env.items():
            if name.startswith("_") or not hasattr(v, "ty") or getattr(v.ty, "kind", None) != "int" or not z3.is_expr(v.t):
                continue
            if z3.is_int_value(v.t) or not any(c.get_id() in {x.get_id() for x in ks} for c in _consts_of(v.t)):
                continue
            t = z3.simplify(v.t)
            if t.get_id() not in seen:
                seen.add(t.get_id())
                out.append(t)
        return (out[1:] + out[:1])[:3]      # integer locals first, the bare counter last

    def _check_invariants(self, n, invs, st, kind):
        for i, text in enumerate(invs):
            g = self.truthy(self.spec_text(text, st), st)
            self.ctx.oblige(st, "%s#%d" % (kind, n), g, line=None, text=text, tag="c%d" % i)

    def assume_invariants(self, n, invs, st):
        self.inv_env(n, st)
        for text in invs:
            st.assume(self.truthy(self.spec_text(text, st), st))

    def dry_run(self, body, st, key=None):
        """explore every path of the loop body on a scratch copy, recording what is written.  The result is a function of the
        loop and of the decisions taken before reaching it, so it is computed once per (loop, decision prefix)."""
        ctx = self.ctx
        cache = ctx.__dict__.setdefault("dry_cache", {})
        ck = None
        if key is not None:
            ck = (key, ctx.dry, tuple(c for c, _ in ctx.taken))
            if ck in cache:
                for w in cache[ck]:
                    ctx.note_write(w)
                return set(cache[ck])
        log = self._dry_run(body, st)
        if ck is not None:
            cache[ck] = frozenset(log)
        return log

    def _dry_run(self, body, st):
        ctx = self.ctx
        log = set()
        saved = (ctx.decisions, ctx.taken, ctx.prune)
        ctx.dry += 1
        ctx.write_logs.append(log)
        ctx.prune = False
        try:
            stack = [[]]
            runs = 0
            while stack:
                prefix = stack.pop()
                ctx.decisions, ctx.taken = prefix, []
                s2 = self.fork_state(st)
                runs += 1
                if runs > 4000:
                    raise Unsupported("loop body has too many paths")
                try:
                    body(s2)
                except (PathEnd, ReturnSig, BreakSig, ContinueSig, RaiseSig):
                    pass
                for i in range(len(prefix), len(ctx.taken)):
                    c, nopt = ctx.taken[i]
                    for alt in range(1, nopt):
                        stack.append([t[0] for t in ctx.taken[:i]] + [alt])
        finally:
            ctx.write_logs.pop()
            ctx.dry -= 1
            ctx.decisions, ctx.taken, ctx.prune = saved
        return log

    def fork_state(self, st):
        s2 = State(self.ctx)
        s2.env = dict(st.env)
        s2.heap = dict(st.heap)
        s2.pc = list(st.pc)
        s2.bound = dict(st.bound)
        s2.entry = st.entry
        s2.loops = dict(st.loops)
        s2.cur_loop = list(st.cur_loop)
        s2.exc = st.exc
        s2.qdepth = st.qdepth
        s2.qids = set(st.qids)
        s2.qguards = list(st.qguards)
        return s2

    def havoc_written(self, written, st, n):
        ctx = self.ctx
        declared = self.contract.locals
        for kind, name in sorted(written):
            if kind == "var":
                if name.startswith("_k") or name.startswith("_it") or name in ("_choice_index", "_sample_index"):
                    continue
                cur = st.env.get(name)
                ty = declared.get(name) or (cur.ty if is_sv(cur) else None)
                if cur is None and name not in declared:
                    continue          # first assigned inside the body: undefined at the loop head
                if ty is None:
                    if isinstance(cur, PyVal):
                        continue
                    raise Unsupported("cannot havoc %s" % name)
                if ty.kind == "list" and ty.arg.kind == "any":
                    raise Unsupported("loop variable %s: list of unknown element type (declare locals)" % name)
                st.env[name] = self.fresh_value(ty, name, st)
            else:
                if name.endswith("!s"):
                    cur = st.harr(name)
                    fr = ctx.fresh("lh%d_%s" % (n, name), cur.sort())
                    r = z3.Int("r!sg")
                    st.assume(z3.ForAll([r], z3.And(fr[r] >= -1, fr[r] <= 1), patterns=[fr[r]]))
                    st.heap[name] = fr
                    continue
                if name == "$alloc":
                    a = ctx.fresh("alloc", z3.IntSort())
                    st.assume(a >= st.alloc())
                    st.heap["$alloc"] = a
                else:
                    cur = st.harr(name)
                    st.heap[name] = ctx.fresh("lh%d_%s" % (n, name), cur.sort())

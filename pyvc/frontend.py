"""Front end: the verified text is the source in /repo, re-read on every run."""
import ast
import hashlib
import os

REPO = os.environ.get("PYVC_REPO", "/repo")


class Frontend:
    def __init__(self, repo=None):
        self.repo = repo or REPO
        self.trees = {}
        self.sources = {}

    def module_path(self, module):
        return os.path.join(self.repo, *module.split(".")) + ".py"

    def tree(self, module):
        if module not in self.trees:
            p = self.module_path(module)
            src = open(p, encoding="utf-8").read()
            self.sources[module] = src
            self.trees[module] = ast.parse(src, filename=p)
        return self.trees[module]

    def find(self, module, qualname):
        """last definition wins, as in Python"""
        node = self.tree(module)
        for part in qualname.split("."):
            found = None
            for ch in node.body:
                if isinstance(ch, (ast.FunctionDef, ast.ClassDef)) and ch.name == part:
                    found = ch
            if found is None:
                return None
            node = found
        return node

    def function_node(self, con):
        fn = self.find(con.module, con.qualname)
        if fn is None or not isinstance(fn, ast.FunctionDef):
            raise LookupError("function %s not found in %s" % (con.qualname, con.module))
        return fn

    def source_segment(self, con):
        fn = self.function_node(con)
        return ast.get_source_segment(self.sources[con.module], fn)

    def source_hash(self, con):
        return hashlib.sha256(self.source_segment(con).encode()).hexdigest()[:16]

    @staticmethod
    def loop_ordinals(fn):
        """preorder numbering of for/while loops of a function body (nested function bodies excluded)"""
        out = {}
        counter = [0]

        def walk(n):
            for ch in ast.iter_child_nodes(n):
                if isinstance(ch, (ast.FunctionDef, ast.Lambda, ast.ClassDef)):
                    continue
                if isinstance(ch, (ast.For, ast.While)):
                    counter[0] += 1
                    out[id(ch)] = counter[0]
                walk(ch)
        walk(fn)
        return out, counter[0]

    @staticmethod
    def is_staticmethod(fn):
        for d in fn.decorator_list:
            if isinstance(d, ast.Name) and d.id in ("staticmethod",):
                return True
        return False

    @staticmethod
    def is_classmethod(fn):
        for d in fn.decorator_list:
            if isinstance(d, ast.Name) and d.id in ("classmethod",):
                return True
        return False

    def imports(self, module):
        """names bound by `from X import a [as b]` at module level -> 'X.a'"""
        out = {}
        for ch in self.tree(module).body:
            if isinstance(ch, ast.ImportFrom) and ch.module:
                for a in ch.names:
                    out[a.asname or a.name] = "%s.%s" % (ch.module.lstrip("."), a.name)
            elif isinstance(ch, ast.Import):
                for a in ch.names:
                    if a.asname:
                        out[a.asname] = "module:" + a.name
        return out

    def module_constants(self, module):
        """module-level NAME = <number> constants"""
        out = {}
        for ch in self.tree(module).body:
            if isinstance(ch, ast.Assign) and len(ch.targets) == 1 and isinstance(ch.targets[0], ast.Name):
                if isinstance(ch.value, ast.Constant) and isinstance(ch.value.value, (int, float)) and not isinstance(ch.value.value, bool):
                    out[ch.targets[0].id] = ch.value.value
                elif ast.unparse(ch.value) == "sys.float_info.epsilon":
                    out[ch.targets[0].id] = 2.220446049250313e-16
        return out

"""Expression evaluation (code mode and spec mode share one translator)."""
import ast
import z3
from .ty import Ty, INT, REAL, BOOL, NONE, STR, EXT, Ref, List, Seq, Opt, Tuple, sort_of, elem_key, parse_ty
from .state import SV, PyVal, mk_int, mk_real, mk_bool, mk_none, mk_str, mk_tuple, mk_seq, str_id
from .ctx import Unsupported, RaiseSig, PathEnd


def is_sv(x):
    return isinstance(x, SV)


def rd(arr, i):
    """select with syntactic read-over-write simplification (keeps trigger terms small)"""
    pend = []
    while z3.is_app(arr) and arr.decl().kind() == z3.Z3_OP_STORE:
        j = arr.arg(1)
        if j.eq(i):
            res = arr.arg(2)
            break
        if z3.is_int_value(j) and z3.is_int_value(i) and j.as_long() != i.as_long():
            arr = arr.arg(0)
            continue
        if (j.get_id(), i.get_id()) in NEQ:
            arr = arr.arg(0)          # the path condition states j != i
            continue
        if len(pend) >= 8:
            res = arr[i]
            break
        # undetermined aliasing: read-over-write as an explicit ite, so E-matching sees the read of the old array
        pend.append((j, arr.arg(2)))
        arr = arr.arg(0)
    else:
        res = arr[i]
    for j, v in reversed(pend):
        res = z3.If(i == j, v, res)
    if pend and len(RD_HINTS) < 400:
        # reads at the written positions are natural instantiation points for quantifiers over the array
        base = arr
        for j, v in pend:
            t = base[j]
            RD_HINTS[t.get_id()] = t
    return res


RD_HINTS = {}
NEQ = set()


def _ix(i, off):
    if z3.is_int_value(off) and off.as_long() == 0:
        return i
    return i + off


class ExprMixin:
    # ------------------------------------------------------------------ coercions
    def to_real(self, v):
        if v.ty.kind == "real":
            return v.t
        if v.ty.kind == "int":
            return z3.ToReal(v.t)
        if v.ty.kind == "bool":
            return z3.If(v.t, z3.RealVal(1), z3.RealVal(0))
        raise Unsupported("not numeric: %r" % (v,))

    def to_int(self, v):
        if v.ty.kind == "int":
            return v.t
        if v.ty.kind == "bool":
            return z3.If(v.t, z3.IntVal(1), z3.IntVal(0))
        raise Unsupported("not an int: %r" % (v,))

    def num_pair(self, a, b):
        if a.ty.kind == "real" or b.ty.kind == "real":
            return REAL, self.to_real(a), self.to_real(b)
        return INT, self.to_int(a), self.to_int(b)

    def coerce(self, v, ty, st=None):
        """value v as a value of static type ty (for stores into typed fields / list elements)"""
        if not is_sv(v):
            raise Unsupported("cannot store %r" % (v,))
        if v.ty == ty:
            return v
        k = ty.kind
        if k == "real" and v.ty.is_num:
            return SV(REAL, self.to_real(v))
        if k == "ext" and v.ty.is_num:
            return SV(EXT, self.to_real(v), z3.IntVal(0))
        if k == "real" and v.ty.kind == "ext" and st is not None:
            self.ctx.oblige(st, "safe:finite", v.aux == 0, text="extended real used where a finite value is needed")
            return SV(REAL, v.t)
        if k == "int" and v.ty.kind in ("int", "bool"):
            return SV(INT, self.to_int(v))
        if k == "bool" and v.ty.kind == "bool":
            return v
        if k == "opt":
            if v.ty.kind == "none":
                return SV(ty, self.default_term(ty.arg), z3.BoolVal(True))
            if v.ty.kind == "opt":
                return v
            inner = self.coerce(v, ty.arg, st)
            return SV(ty, inner.t, z3.BoolVal(False))
        if k == "ref" and v.ty.kind == "ref":
            return SV(ty, v.t) if self.subclass(v.ty.arg, ty.arg) or self.subclass(ty.arg, v.ty.arg) else self._bad_coerce(v, ty)
        if k == "list" and v.ty.kind == "list":
            if v.ty.arg == ty.arg or elem_key(v.ty.arg) == elem_key(ty.arg):
                return SV(ty, v.t)
            if v.ty.arg.kind == "any":
                return SV(ty, v.t)
        if k == "list" and v.ty.kind in ("seq", "tuple") and st is not None:
            return self.list_from_iter(v, st, ty.arg)
        if v.ty.kind == "opt" and st is not None:
            # using an optional where a plain value is needed: the value must not be None
            self.ctx.oblige(st, "safe:not-none", z3.Not(v.aux), text="value used as %r" % (ty,))
            return self.coerce(SV(v.ty.arg, v.t), ty, st)
        return self._bad_coerce(v, ty)

    def _bad_coerce(self, v, ty):
        raise Unsupported("cannot use %r as %r" % (v.ty, ty))

    def subclass(self, c, base):
        return base in self.reg.class_chain(c) or c == base

    def default_term(self, ty):
        if ty.kind == "real":
            return z3.RealVal(0)
        if ty.kind == "bool":
            return z3.BoolVal(False)
        return z3.IntVal(0)

    def truthy(self, v, st):
        if isinstance(v, PyVal):
            raise Unsupported("truth value of %r" % v)
        k = v.ty.kind
        if k == "bool":
            return v.t
        if k == "int":
            return v.t != 0
        if k == "real":
            return v.t != 0
        if k == "ext":
            return z3.Or(v.aux != 0, v.t != 0)
        if k == "none":
            return z3.BoolVal(False)
        if k == "str":
            return v.t != str_id("")
        if k == "ref":
            for cn in self.reg.class_chain(v.ty.arg):
                cd = self.reg.classes.get(cn)
                if cd is not None and getattr(cd, "truth_len", None):
                    # the class defines __len__: `if obj:` tests len(obj) != 0
                    return self.list_len(self.read_field(v, cd.truth_len, st, True), st) != 0
            return z3.BoolVal(True)
        if k == "list":
            return self.list_len(v, st) != 0
        if k == "seq":
            return v.aux[1] != 0
        if k == "opt":
            return z3.And(z3.Not(v.aux), self.truthy(SV(v.ty.arg, v.t), st))
        if k == "tuple":
            return z3.BoolVal(len(v.t) > 0)
        raise Unsupported("truth value of %r" % (v.ty,))

    # ------------------------------------------------------------------ heap access
    def field_key(self, cname, fname):
        f = self.reg.field(cname, fname)
        if f is None:
            return None
        owner, ty = f
        return "%s.%s" % (owner, fname), ty

    def read_field(self, obj, fname, st, spec=False):
        cname = obj.ty.arg
        fk = self.field_key(cname, fname)
        if fk is None:
            raise Unsupported("class %s has no declared field %s" % (cname, fname))
        key, ty = fk
        return self.read_loc(key, ty, obj.t, st, spec)

    def read_loc(self, key, ty, ref, st, spec=False):
        if ty.kind == "ext":
            arr = st.harr(key, z3.ArraySort(z3.IntSort(), z3.RealSort()))
            sarr = st.harr(key + "!s", z3.ArraySort(z3.IntSort(), z3.IntSort()))
            return SV(EXT, rd(arr, ref), rd(sarr, ref))
        if ty.kind == "opt":
            arr = st.harr(key, z3.ArraySort(z3.IntSort(), sort_of(ty.arg)))
            narr = st.harr(key + "?", z3.ArraySort(z3.IntSort(), z3.BoolSort()))
            v = SV(ty, rd(arr, ref), rd(narr, ref))
            if ty.arg.kind in ("ref", "list") and not spec:
                st.assume(z3.Implies(z3.Not(v.aux), z3.And(v.t >= 1, v.t < st.alloc())))
            return v
        arr = st.harr(key, z3.ArraySort(z3.IntSort(), sort_of(ty)))
        v = SV(ty, rd(arr, ref))
        if ty.kind in ("ref", "list") and not spec and st.qdepth == 0:
            st.assume(z3.And(v.t >= 1, v.t < st.alloc()))
        return v

    def write_field(self, obj, fname, val, st):
        cname = obj.ty.arg
        fk = self.field_key(cname, fname)
        if fk is None:
            raise Unsupported("class %s has no declared field %s" % (cname, fname))
        key, ty = fk
        self.write_loc(key, ty, obj.t, val, st)

    def write_loc(self, key, ty, ref, val, st):
        val = self.coerce(val, ty, st)
        if ty.kind == "ext":
            arr = st.harr(key, z3.ArraySort(z3.IntSort(), z3.RealSort()))
            sarr = st.harr(key + "!s", z3.ArraySort(z3.IntSort(), z3.IntSort()))
            st.hset(key, z3.Store(arr, ref, val.t))
            st.hset(key + "!s", z3.Store(sarr, ref, val.aux))
            return
        if ty.kind == "opt":
            arr = st.harr(key, z3.ArraySort(z3.IntSort(), sort_of(ty.arg)))
            narr = st.harr(key + "?", z3.ArraySort(z3.IntSort(), z3.BoolSort()))
            st.hset(key, z3.Store(arr, ref, val.t))
            st.hset(key + "?", z3.Store(narr, ref, val.aux))
        else:
            arr = st.harr(key, z3.ArraySort(z3.IntSort(), sort_of(ty)))
            st.hset(key, z3.Store(arr, ref, val.t))

    def content_key(self, ety):
        return "$list." + elem_key(ety)

    def content_arr(self, ety, st):
        s = sort_of(ety)
        return st.harr(self.content_key(ety), z3.ArraySort(z3.IntSort(), z3.ArraySort(z3.IntSort(), s)))

    def len_key(self, ety):
        return "$len." + elem_key(ety)

    def len_arr(self, st, ety):
        return st.harr(self.len_key(ety), z3.ArraySort(z3.IntSort(), z3.IntSort()))

    def list_len(self, lst, st, spec=False):
        l = rd(self.len_arr(st, lst.ty.arg), lst.t)
        if st.qdepth == 0:
            st.assume(l >= 0)
        return l

    def list_elem(self, lst, idx, st, spec=False):
        ety = lst.ty.arg
        if ety.kind == "any":
            raise Unsupported("element type of list unknown")
        t = rd(rd(self.content_arr(ety, st), lst.t), idx)
        v = SV(ety, t)
        if ety.kind in ("ref", "list") and not spec and st.qdepth == 0:
            st.assume(z3.And(t >= 1, t < st.alloc()))
        return v

    def list_set_content(self, lst, arr, length, st):
        ety = lst.ty.arg
        ca = self.content_arr(ety, st)
        st.hset(self.content_key(ety), z3.Store(ca, lst.t, arr))
        if length is not None:
            st.hset(self.len_key(ety), z3.Store(self.len_arr(st, ety), lst.t, length))

    def new_list(self, ety, arr, length, st):
        r = st.new_ref()
        lst = SV(List(ety), r)
        if ety.kind != "any":
            if arr is None:
                arr = self.ctx.fresh("emptyarr", z3.ArraySort(z3.IntSort(), sort_of(ety)))
            self.list_set_content(lst, arr, length, st)
        else:
            raise Unsupported("list of unknown element type (declare the variable in the contract's locals)")
        return lst

    def seq_of(self, v, st, spec=False):
        """view a list / seq / tuple as (elem_ty, arr, off, len)"""
        if v.ty.kind == "seq":
            return v.ty.arg, v.t, v.aux[0], v.aux[1]
        if v.ty.kind == "list":
            ety = v.ty.arg
            if ety.kind == "any":
                raise Unsupported("element type of list unknown")
            return ety, rd(self.content_arr(ety, st), v.t), z3.IntVal(0), self.list_len(v, st, spec)
        if v.ty.kind == "tuple":
            items = list(v.t)
            if not items:
                raise Unsupported("empty tuple as sequence")
            ety = items[0].ty
            if any(i.ty.kind == "real" for i in items):
                ety = REAL
            arr = z3.K(z3.IntSort(), self.default_term(ety)) if ety.kind in ("real", "int", "bool") else self.ctx.fresh("tup", z3.ArraySort(z3.IntSort(), sort_of(ety)))
            for i, it in enumerate(items):
                arr = z3.Store(arr, i, self.coerce(it, ety, st).t)
            return ety, arr, z3.IntVal(0), z3.IntVal(len(items))
        raise Unsupported("not a sequence: %r" % (v.ty,))

    def list_from_iter(self, v, st, ety=None):
        e, arr, off, ln = self.seq_of(v, st)
        if ety is None:
            ety = e
        if z3.is_int_value(off) and off.as_long() == 0:
            a2 = arr
        else:
            j = z3.Int("j!sl")
            a2 = z3.Lambda([j], arr[j + off])
        return self.new_list(ety, a2, ln, st)

    # ------------------------------------------------------------------ main dispatcher
    def ev(self, node, st, spec=False):
        m = getattr(self, "ev_" + node.__class__.__name__, None)
        if m is None:
            raise Unsupported("expression %s" % node.__class__.__name__)
        if hasattr(node, "lineno") and not spec:
            self.ctx.cur_line = node.lineno
        return m(node, st, spec)

    def ev_Constant(self, node, st, spec):
        v = node.value
        if v is None:
            return mk_none()
        if isinstance(v, bool):
            return mk_bool(v)
        if isinstance(v, int):
            return mk_int(v)
        if isinstance(v, float):
            import fractions
            if v != v or v in (float("inf"), float("-inf")):
                raise Unsupported("non-finite float constant")
            fr = fractions.Fraction(repr(v)) if "e" in repr(v) or "." in repr(v) else fractions.Fraction(v)
            return SV(REAL, z3.RealVal(str(fr)))
        if isinstance(v, str):
            return mk_str(v)
        raise Unsupported("constant %r" % (v,))

    def ev_Name(self, node, st, spec):
        v = st.get(node.id)
        if v is not None:
            return v
        if spec:
            if node.id == "alloc":
                return mk_int(st.alloc())
            if node.id == "old_alloc":
                return mk_int(st.entry.heap.get("$alloc", self.ctx.initial_array("$alloc")))
            if node.id in ("True", "False"):
                return mk_bool(node.id == "True")
            if node.id == "inf":
                return SV(EXT, z3.RealVal(0), z3.IntVal(1))
            if node.id == "pi":
                return SV(REAL, self.pi_const(st))
        g = self.global_name(node.id, st)
        if g is not None:
            return g
        raise Unsupported("unknown name %s" % node.id)

    def global_name(self, name, st):
        if name in self.reg.classes:
            return PyVal("class", name=name)
        imp = self.module_imports.get(name)
        if imp is not None and not imp.startswith("module:"):
            mod, _, fn = imp.rpartition(".")
            if mod == "math" and fn == "pi":
                return SV(REAL, self.pi_const(st))
            if mod in ("random", "math", "copy", "functools", "itertools", "time"):
                return PyVal("func", name="%s.%s" % (mod, fn))
            if mod == "scipy.optimize":
                return PyVal("func", name="scipy.optimize.%s" % fn)
            if mod in ("numpy", "numpy.random"):
                return PyVal("func", name="np.%s" % fn if mod == "numpy" else "np.random.%s" % fn)
        if name in ("math", "np", "numpy", "random", "itertools", "functools", "time", "sys", "copy", "json", "sqlite3", "os"):
            return PyVal("module", name=name)
        if name in self.module_consts:
            return self.module_consts[name]
        return PyVal("func", name=name)

    def ev_Tuple(self, node, st, spec):
        return mk_tuple([self.ev(e, st, spec) for e in node.elts])

    def ev_List(self, node, st, spec):
        items = [self.ev(e, st, spec) for e in node.elts]
        if spec:
            return mk_tuple(items)
        if not items:
            hint = self.pending_list_type
            if hint is None or hint.kind != "list":
                raise Unsupported("empty list literal of unknown element type (declare the target in the contract's locals)")
            return self.new_list(hint.arg, None, z3.IntVal(0), st)
        if all(is_sv(i) for i in items) and len({i.ty.kind for i in items}) > 1 and not all(i.ty.is_num for i in items):
            # heterogeneous literal ([id, json_text] as the parameter list of an SQL statement): an immutable tuple value
            return mk_tuple(items)
        ety = items[0].ty
        if any(i.ty.kind == "real" for i in items) and all(i.ty.is_num for i in items):
            ety = REAL
        hint = self.pending_list_type
        if hint is not None and hint.kind == "list" and hint.arg.kind == "real" and all(i.ty.is_num for i in items):
            ety = REAL      # a list of int literals that is stored where floats live ([0] * n for velocities)
        arr = self.ctx.fresh("lit", z3.ArraySort(z3.IntSort(), sort_of(ety)))
        for i, it in enumerate(items):
            arr = z3.Store(arr, i, self.coerce(it, ety, st).t)
        return self.new_list(ety, arr, z3.IntVal(len(items)), st)

    def list_type_hint(self, node):
        h = self.empty_list_types.get(getattr(node, "lineno", None))
        return parse_ty(h).arg if h else None

    def ev_UnaryOp(self, node, st, spec):
        v = self.ev(node.operand, st, spec)
        if isinstance(node.op, ast.Not):
            return mk_bool(z3.Not(self.truthy(v, st)))
        if isinstance(node.op, ast.USub):
            if v.ty.kind == "ext":
                return SV(EXT, -v.t, -v.aux)
            if v.ty.kind == "real":
                return SV(REAL, -v.t)
            return SV(INT, -self.to_int(v))
        if isinstance(node.op, ast.UAdd):
            return v
        raise Unsupported("unary op")

    def ev_BoolOp(self, node, st, spec):
        vals = []
        temps = []
        try:
            for e in node.values:
                v = self.ev(e, st, spec)
                b = self.truthy(v, st)
                vals.append(b)
                t = b if isinstance(node.op, ast.And) else z3.Not(b)
                st.pc.append(t)          # later operands are evaluated under the short-circuit assumption
                temps.append(t)
        finally:
            # remove only the temporary short-circuit assumptions; facts added by the evaluation itself (len >= 0,
            # library axioms) stay
            for t in temps:
                for k in range(len(st.pc) - 1, -1, -1):
                    if st.pc[k] is t:
                        del st.pc[k]
                        break
        return mk_bool(z3.And(*vals) if isinstance(node.op, ast.And) else z3.Or(*vals))

    def ev_IfExp(self, node, st, spec):
        c = self.truthy(self.ev(node.test, st, spec), st)
        st.pc.append(c)
        try:
            a = self.ev(node.body, st, spec)
        finally:
            self._drop(st, c)
        nc = z3.Not(c)
        st.pc.append(nc)
        try:
            b = self.ev(node.orelse, st, spec)
        finally:
            self._drop(st, nc)
        return self.ite(c, a, b, st)

    def _drop(self, st, t):
        for k in range(len(st.pc) - 1, -1, -1):
            if st.pc[k] is t:
                del st.pc[k]
                return

    def ite(self, c, a, b, st):
        if a.ty.kind == "none" and b.ty.kind == "none":
            return a
        if a.ty == b.ty and a.ty.kind in ("int", "real", "bool", "ref", "list", "str"):
            return SV(a.ty, z3.If(c, a.t, b.t))
        if a.ty.is_num and b.ty.is_num:
            ty, x, y = self.num_pair(a, b)
            return SV(ty, z3.If(c, x, y))
        if (a.ty.kind == "ext" or b.ty.kind == "ext") and (a.ty.is_num or a.ty.kind == "ext") and (b.ty.is_num or b.ty.kind == "ext"):
            ea, eb = self.coerce(a, EXT, st), self.coerce(b, EXT, st)
            return SV(EXT, z3.If(c, ea.t, eb.t), z3.If(c, ea.aux, eb.aux))
        if a.ty.kind == "none" or b.ty.kind == "none" or a.ty.kind == "opt" or b.ty.kind == "opt":
            inner = a.ty if a.ty.kind not in ("none", "opt") else (b.ty if b.ty.kind not in ("none", "opt") else (a.ty.arg if a.ty.kind == "opt" else b.ty.arg))
            oa, ob = self.coerce(a, Opt(inner), st), self.coerce(b, Opt(inner), st)
            return SV(Opt(inner), z3.If(c, oa.t, ob.t), z3.If(c, oa.aux, ob.aux))
        if a.ty.kind == "ref" and b.ty.kind == "ref":
            return SV(a.ty, z3.If(c, a.t, b.t))
        raise Unsupported("conditional of %r and %r" % (a.ty, b.ty))

    # ------------------------------------------------------------------ arithmetic
    def ev_BinOp(self, node, st, spec):
        a = self.ev(node.left, st, spec)
        b = self.ev(node.right, st, spec)
        return self.binop(node.op, a, b, st, spec, node)

    def binop(self, op, a, b, st, spec, node=None):
        if not is_sv(a) or not is_sv(b):
            raise Unsupported("binary op on %r, %r" % (a, b))
        if a.ty.kind == "opt":
            a = self.unopt(a, st, spec)
        if b.ty.kind == "opt":
            b = self.unopt(b, st, spec)
        if isinstance(op, ast.Add) and a.ty.kind in ("list", "seq", "tuple") and b.ty.kind in ("list", "seq", "tuple"):
            return self.concat(a, b, st, spec)
        if isinstance(op, ast.Mult) and a.ty.kind == "list" and b.ty.kind == "int":
            return self.list_repeat(a, b, st)
        if (a.ty.kind == "ext" or b.ty.kind == "ext") and isinstance(op, (ast.Add, ast.Sub)):
            ea, eb = self.coerce(a, EXT, st), self.coerce(b, EXT, st)
            if isinstance(op, ast.Sub):
                eb = SV(EXT, -eb.t, -eb.aux)
            if not spec:
                # inf + (-inf) is nan: outside the model
                self.ctx.oblige(st, "safe:nan", z3.Not(z3.And(ea.aux != 0, eb.aux != 0, ea.aux != eb.aux)), text="inf - inf")
            return SV(EXT, ea.t + eb.t, z3.If(ea.aux != 0, ea.aux, eb.aux))
        if not (a.ty.is_num and b.ty.is_num):
            raise Unsupported("arithmetic on %r and %r" % (a.ty, b.ty))
        ty, x, y = self.num_pair(a, b)
        line = getattr(node, "lineno", None)
        if ty.kind == "real" and not spec:
            self.ctx.float_ops.add((self.ctx.funcname, line, op.__class__.__name__))
        if isinstance(op, ast.Add):
            return SV(ty, x + y)
        if isinstance(op, ast.Sub):
            return SV(ty, x - y)
        if isinstance(op, ast.Mult):
            if self.mul_mode == "uninterpreted" and ty.kind == "real":
                xs, ys = z3.simplify(x), z3.simplify(y)
                if not (z3.is_rational_value(xs) or z3.is_int_value(xs) or z3.is_rational_value(ys) or z3.is_int_value(ys)):
                    # product of two symbolic factors kept uninterpreted (only functionality is used; avoids nonlinear search)
                    f = z3.Function("umul", z3.RealSort(), z3.RealSort(), z3.RealSort())
                    self.ctx.models_used.add("products of two symbolic factors kept uninterpreted (umul) in this function")
                    return SV(REAL, f(x, y))
            return SV(ty, x * y)
        if isinstance(op, ast.Div):
            xr, yr = self.to_real(a), self.to_real(b)
            if not spec:
                self.ctx.float_ops.add((self.ctx.funcname, line, "Div"))
                if self.check_div:
                    self.ctx.oblige(st, "safe:div", yr != 0, text="division by zero")
            if self.float_div == "uninterpreted":
                f = self.fdiv_fun()
                a, b = z3.Reals("fd_a fd_b")
                ax = z3.ForAll([a, b], z3.Implies(z3.And(0 <= a, a <= b, b > 0), z3.And(f(a, b) >= 0, f(a, b) <= 1)),
                               patterns=[f(a, b)], qid="fdiv_unit")
                if st is not None and not any(ax.eq(p) for p in st.pc):
                    st.pc.append(ax)
                return SV(REAL, f(xr, yr))
            return SV(REAL, xr / yr)
        if isinstance(op, ast.FloorDiv):
            if ty.kind == "int":
                if not spec and self.check_div:
                    self.ctx.oblige(st, "safe:div", y != 0, text="division by zero")
                return SV(INT, self.py_floordiv(x, y))
            raise Unsupported("float floor division")
        if isinstance(op, ast.Mod):
            if ty.kind == "int":
                if not spec and self.check_div:
                    self.ctx.oblige(st, "safe:div", y != 0, text="modulo by zero")
                return SV(INT, self.py_mod(x, y))
            raise Unsupported("float modulo")
        if isinstance(op, ast.Pow):
            return self.power(a, b, st, spec)
        raise Unsupported("operator %s" % op.__class__.__name__)

    def fdiv_fun(self):
        self.ctx.models_used.add("float division kept uninterpreted: fdiv(x, y) is a function of its arguments with 0 <= x <= y, y > 0 => 0 <= fdiv(x, y) <= 1 (true of IEEE division)")
        return z3.Function("fdiv", z3.RealSort(), z3.RealSort(), z3.RealSort())

    def py_floordiv(self, x, y):
        # python floors; SMT-LIB div keeps the remainder non-negative (differs for negative divisors)
        return z3.If(z3.Or(y > 0, x % y == 0), x / y, x / y - 1)

    def py_mod(self, x, y):
        return z3.If(z3.Or(y > 0, x % y == 0), x % y, x % y + y)

    def power(self, a, b, st, spec):
        if b.ty.kind == "int" and z3.is_int_value(z3.simplify(b.t)):
            n = z3.simplify(b.t).as_long()
            if 0 <= n <= 8:
                ty = a.ty if a.ty.kind != "bool" else INT
                base = self.to_real(a) if ty.kind == "real" else self.to_int(a)
                r = z3.RealVal(1) if ty.kind == "real" else z3.IntVal(1)
                for _ in range(n):
                    r = r * base
                return SV(ty, r)
        if b.ty.kind == "real":
            sb = z3.simplify(b.t)
            if z3.is_rational_value(sb) and sb.denominator_as_long() == 1 and 0 <= sb.numerator_as_long() <= 8:
                return self.power(a, mk_int(sb.numerator_as_long()), st, spec)
        f = z3.Function("pow_real", z3.RealSort(), z3.RealSort(), z3.RealSort())
        self.ctx.models_used.add("pow: uninterpreted real function with the sign / unit-interval facts of x**y for x >= 0 (A5): "
                                 "x**y >= 0; x > 0 => x**y > 0; 0 <= x <= 1, y >= 0 => x**y <= 1; x >= 1, y <= 0 => x**y <= 1; "
                                 "x >= 1, y >= 0 => x**y >= 1")
        x, n = z3.Reals("pw_x pw_n")
        ax = z3.ForAll([x, n], z3.Implies(x >= 0, z3.And(
            f(x, n) >= 0, z3.Implies(x > 0, f(x, n) > 0),
            z3.Implies(z3.And(x <= 1, n >= 0), f(x, n) <= 1),
            z3.Implies(z3.And(x >= 1, n <= 0), f(x, n) <= 1),
            z3.Implies(z3.And(x >= 1, n >= 0), f(x, n) >= 1))), patterns=[f(x, n)], qid="el_pow")
        if st is not None and not any(ax.eq(p) for p in st.pc):
            st.pc.append(ax)
        ar, br = self.to_real(a), self.to_real(b)
        if not spec and st is not None and getattr(self.contract, "options", {}).get("pow_safety", True):
            if b.ty.kind == "real":
                # Python: a negative base with a non-integral exponent yields a complex number (** and pow) or ValueError (math.pow)
                self.ctx.oblige(st, "safe:pow", ar >= 0, text="real-valued power: base >= 0 for a real exponent")
            self.ctx.oblige(st, "safe:pow", z3.Or(ar != 0, br >= 0), text="0 ** negative exponent")
        return SV(REAL, f(ar, br))

    def unopt(self, v, st, spec):
        if not spec:
            self.ctx.oblige(st, "safe:not-none", z3.Not(v.aux), text="optional value used in arithmetic/comparison")
        return SV(v.ty.arg, v.t)

    def concat(self, a, b, st, spec):
        e1, arr1, off1, l1 = self.seq_of(a, st, spec)
        e2, arr2, off2, l2 = self.seq_of(b, st, spec)
        j = z3.Int("j!cat")
        arr = z3.Lambda([j], z3.If(j < l1, arr1[j + off1], arr2[j - l1 + off2]))
        if a.ty.kind == "list" and not spec:
            return self.new_list(e1, arr, l1 + l2, st)
        return mk_seq(e1, arr, z3.IntVal(0), l1 + l2)

    def list_repeat(self, a, b, st):
        e, arr, off, l = self.seq_of(a, st)
        sl = z3.simplify(l)
        if z3.is_int_value(sl) and sl.as_long() == 1:
            return self.new_list(e, z3.K(z3.IntSort(), arr[off]), z3.If(b.t > 0, b.t, 0), st)
        raise Unsupported("list repetition of length != 1")

    # ------------------------------------------------------------------ comparisons
    def ev_Compare(self, node, st, spec):
        left = self.ev(node.left, st, spec)
        res = []
        for op, rn in zip(node.ops, node.comparators):
            right = self.ev(rn, st, spec)
            res.append(self.compare(op, left, right, st, spec))
            left = right
        return mk_bool(res[0] if len(res) == 1 else z3.And(*res))

    def compare(self, op, a, b, st, spec):
        if isinstance(op, (ast.Is, ast.IsNot)):
            r = self.identical(a, b, st)
            return r if isinstance(op, ast.Is) else z3.Not(r)
        if isinstance(op, (ast.Eq, ast.NotEq)):
            r = self.equal(a, b, st, spec)
            return r if isinstance(op, ast.Eq) else z3.Not(r)
        if isinstance(op, (ast.In, ast.NotIn)):
            r = self.contains(b, a, st, spec)
            return r if isinstance(op, ast.In) else z3.Not(r)
        if isinstance(a, PyVal) or isinstance(b, PyVal):
            raise Unsupported("ordering of %r, %r" % (a, b))
        if a.ty.kind == "opt":
            a = self.unopt(a, st, spec)
        if b.ty.kind == "opt":
            b = self.unopt(b, st, spec)
        if a.ty.kind == "ext" or b.ty.kind == "ext":
            ea, eb = self.coerce(a, EXT, st), self.coerce(b, EXT, st)
            lt = lambda p, q: z3.Or(p.aux < q.aux, z3.And(p.aux == 0, q.aux == 0, p.t < q.t))
            eq = self.ext_eq(ea, eb)
            if isinstance(op, ast.Lt):
                return lt(ea, eb)
            if isinstance(op, ast.Gt):
                return lt(eb, ea)
            if isinstance(op, ast.LtE):
                return z3.Or(lt(ea, eb), eq)
            if isinstance(op, ast.GtE):
                return z3.Or(lt(eb, ea), eq)
        if not (a.ty.is_num and b.ty.is_num):
            raise Unsupported("ordering of %r and %r" % (a.ty, b.ty))
        ty, x, y = self.num_pair(a, b)
        if isinstance(op, ast.Lt):
            return x < y
        if isinstance(op, ast.LtE):
            return x <= y
        if isinstance(op, ast.Gt):
            return x > y
        if isinstance(op, ast.GtE):
            return x >= y
        raise Unsupported("comparison op")

    def ext_eq(self, a, b):
        return z3.And(a.aux == b.aux, z3.Or(a.aux != 0, a.t == b.t))

    def identical(self, a, b, st):
        if isinstance(a, PyVal) or isinstance(b, PyVal):
            raise Unsupported("identity of %r, %r" % (a, b))
        ka, kb = a.ty.kind, b.ty.kind
        if ka == "none" and kb == "none":
            return z3.BoolVal(True)
        if ka == "none":
            a, b, ka, kb = b, a, kb, ka
        if kb == "none":
            if ka == "opt":
                return a.aux
            return z3.BoolVal(False)
        if ka == "opt" and kb == "opt":
            return z3.Or(z3.And(a.aux, b.aux), z3.And(z3.Not(a.aux), z3.Not(b.aux), a.t == b.t))
        if ka == "opt":
            return z3.And(z3.Not(a.aux), a.t == b.t)
        if kb == "opt":
            return z3.And(z3.Not(b.aux), a.t == b.t)
        if ka in ("ref", "list") and kb in ("ref", "list"):
            return a.t == b.t
        if ka == "bool" and kb == "bool":
            return a.t == b.t
        if ka == "str" and kb == "str":
            return a.t == b.t
        raise Unsupported("identity of %r and %r" % (a.ty, b.ty))

    def equal(self, a, b, st, spec):
        if isinstance(a, PyVal) or isinstance(b, PyVal):
            if isinstance(a, PyVal) and isinstance(b, PyVal) and a.kind == b.kind == "const":
                return z3.BoolVal(a.value == b.value)
            raise Unsupported("equality of %r, %r" % (a, b))
        ka, kb = a.ty.kind, b.ty.kind
        if a.ty.is_num and b.ty.is_num:
            if ka == "bool" and kb == "bool":
                return a.t == b.t
            ty, x, y = self.num_pair(a, b)
            return x == y
        if (ka == "ext" or kb == "ext") and (a.ty.is_num or ka == "ext") and (b.ty.is_num or kb == "ext"):
            return self.ext_eq(self.coerce(a, EXT, st), self.coerce(b, EXT, st))
        if ka == "none" or kb == "none":
            return self.identical(a, b, st)
        if ka == "opt" or kb == "opt":
            oa = a if ka == "opt" else None
            ob = b if kb == "opt" else None
            if oa is not None and ob is not None:
                return z3.Or(z3.And(oa.aux, ob.aux), z3.And(z3.Not(oa.aux), z3.Not(ob.aux),
                                                          self.equal(SV(a.ty.arg, a.t), SV(b.ty.arg, b.t), st, spec)))
            o, p = (oa, b) if oa is not None else (ob, a)
            return z3.And(z3.Not(o.aux), self.equal(SV(o.ty.arg, o.t), p, st, spec))
        if ka == "str" and kb == "str":
            return a.t == b.t
        if ka in ("list", "seq", "tuple") and kb in ("list", "seq", "tuple"):
            e1, arr1, off1, l1 = self.seq_of(a, st, spec)
            e2, arr2, off2, l2 = self.seq_of(b, st, spec)
            if e1.kind in ("ref", "list") or e2.kind in ("ref", "list"):
                if spec:
                    i = self.ctx.fresh("i", z3.IntSort())
                    return z3.And(l1 == l2, z3.ForAll([i], z3.Implies(z3.And(0 <= i, i < l1), arr1[_ix(i, off1)] == arr2[_ix(i, off2)]), qid="seqeq_%s" % i))
                raise Unsupported("== on lists of objects")
            i = self.ctx.fresh("i", z3.IntSort())
            x = SV(e1, arr1[_ix(i, off1)])
            y = SV(e2, arr2[_ix(i, off2)])
            st.qdepth += 1
            st.qids.add(i.get_id())
            try:
                inner = self.equal(x, y, st, spec)
            finally:
                st.qdepth -= 1
                st.qids.discard(i.get_id())
            return z3.And(l1 == l2, z3.ForAll([i], z3.Implies(z3.And(0 <= i, i < l1), inner), qid="seqeq_%s" % i))
        if ka == "ref" and kb == "ref":
            if spec:
                return a.t == b.t
            return self.object_eq(a, b, st)
        raise Unsupported("equality of %r and %r" % (a.ty, b.ty))

    def object_eq(self, a, b, st):
        con = self.reg.method_contract(a.ty.arg, "__eq__")
        if con is None:
            return a.t == b.t
        r = self.apply_contract(con, [a, b], {}, st, "__eq__")
        return self.truthy(r, st)

    def contains(self, container, item, st, spec):
        if isinstance(container, PyVal):
            if container.kind == "dir" and is_sv(item) and item.ty.kind == "str" and is_sv(container.of) and container.of.ty.kind == "ref":
                # "name" in dir(obj): whether the (user) class defines the hook is a boolean attribute of the object
                fname = "has_" + item.aux
                if self.reg.field(container.of.ty.arg, fname) is None:
                    raise Unsupported("dir() membership of %r not modelled" % item.aux)
                return self.read_field(container.of, fname, st, spec).t
            if container.kind == "const" and isinstance(container.value, (list, tuple, set, dict)):
                if item.ty.kind == "str":
                    return z3.BoolVal(item.aux in container.value)
            raise Unsupported("membership in %r" % container)
        k = container.ty.kind
        if k == "ref":
            cd = self.reg.classes.get(container.ty.arg)
            if cd is not None and cd.rec and item.ty.kind == "str":
                key = item.aux
                if key in cd.optional:
                    arr = st.harr("%s.has_%s" % (cd.name, key), z3.ArraySort(z3.IntSort(), z3.BoolSort()))
                    return arr[container.t]
                if self.reg.field(cd.name, key):
                    return z3.BoolVal(True)
                return z3.BoolVal(False)
        if k in ("list", "seq", "tuple"):
            e, arr, off, ln = self.seq_of(container, st, spec)
            i = self.ctx.fresh("i", z3.IntSort())
            st.qdepth += 1
            st.qids.add(i.get_id())
            st.qguards.append(z3.And(0 <= i, i < ln))
            try:
                return self._contains_seq(e, arr, off, ln, i, item, st, spec)
            finally:
                st.qdepth -= 1
                st.qids.discard(i.get_id())
                st.qguards.pop()
        raise Unsupported("membership in %r" % (container.ty,))

    def _contains_seq(self, e, arr, off, ln, i, item, st, spec):
        if True:
            if e.kind == "ref" and not spec:
                con = self.reg.method_contract(e.arg, "__eq__")
                if con is not None and con.pure and con.returns:
                    saved = dict(st.bound)
                    st.bound["_a"] = SV(e, arr[_ix(i, off)])
                    st.bound["_b"] = item
                    try:
                        body = self.truthy(self.spec_text(con.returns.replace("self", "_a").replace("other", "_b"), st), st)
                    finally:
                        st.bound = saved
                    return z3.Exists([i], z3.And(0 <= i, i < ln, z3.Or(arr[_ix(i, off)] == item.t, body)))
            x = SV(e, arr[_ix(i, off)])
            return z3.Exists([i], z3.And(0 <= i, i < ln, self.equal(x, item, st, True)))
        raise Unsupported("membership in %r" % (container.ty,))

    # ------------------------------------------------------------------ attribute / subscript
    def ev_Attribute(self, node, st, spec):
        base = self.ev(node.value, st, spec)
        return self.getattr_(base, node.attr, st, spec)

    def getattr_(self, base, attr, st, spec):
        if isinstance(base, PyVal):
            if base.kind == "module":
                return self.module_attr(base.name, attr, st)
            if base.kind == "class":
                s = self.reg.static(base.name, attr)
                if s is not None:
                    return self.static_value(s)
                cv = self.reg.class_var(base.name, attr)
                if cv is not None:
                    key = "$cv.%s.%s" % (cv[0], attr)
                    return SV(cv[1], st.harr(key, sort_of(cv[1])))
                c = self.source_class_constant(base.name, attr)
                if c is not None:
                    return self.static_value(c)
                return PyVal("classattr", cls=base.name, name=attr)
            if base.kind == "ns":
                if attr in base.table:
                    return self.static_value(base.table[attr])
            if base.kind == "super":
                return PyVal("boundmethod", recv=base.recv, name=attr, cls=base.cls)
            raise Unsupported("attribute %s of %r" % (attr, base))
        if base.ty.kind == "opt":
            base = self.unopt(base, st, spec)
        if base.ty.kind == "ref":
            cname = base.ty.arg
            if attr == "__class__":
                self.ctx.models_used.add("obj.__class__ is the statically declared class of obj (A4)")
                return PyVal("class", name=cname)
            if self.reg.field(cname, attr) is not None:
                return self.read_field(base, attr, st, spec)
            s = self.reg.static(cname, attr)
            if s is not None:
                return self.static_value(s)
            c = self.source_class_constant(cname, attr)
            if c is not None:
                return self.static_value(c)
            return PyVal("boundmethod", recv=base, name=attr, cls=None)
        if base.ty.kind in ("list", "seq", "tuple", "real", "int"):
            return PyVal("boundmethod", recv=base, name=attr, cls=None)
        raise Unsupported("attribute %s of %r" % (attr, base.ty))

    def source_class_constant(self, cname, attr):
        """NAME = <str/number literal> in the body of the class in the REAL source (module of the function being verified)"""
        try:
            node = self.frontend.find(self.contract.module, cname)
        except Exception:
            return None
        if node is None or not isinstance(node, ast.ClassDef):
            return None
        found = None
        for ch in node.body:
            if isinstance(ch, ast.Assign) and len(ch.targets) == 1 and isinstance(ch.targets[0], ast.Name) and ch.targets[0].id == attr \
                    and isinstance(ch.value, ast.Constant) and isinstance(ch.value.value, (str, int, float)):
                found = ch.value.value
        return found

    def static_value(self, s):
        if isinstance(s, dict):
            return PyVal("ns", table=s)
        if isinstance(s, bool):
            return mk_bool(s)
        if isinstance(s, int):
            return mk_int(s)
        if isinstance(s, float):
            return mk_real(s)
        if isinstance(s, str):
            return mk_str(s)
        raise Unsupported("static %r" % (s,))

    def module_attr(self, mod, attr, st=None):
        if mod in ("math", "np", "numpy") and attr == "pi" and st is not None:
            return SV(REAL, self.pi_const(st))
        if mod in ("math", "np", "numpy") and attr == "e" and st is not None:
            self.bi_math_exp([SV(REAL, z3.RealVal(1))], {}, st, True)      # brings in e_c == exp(1)
            return SV(REAL, z3.Real("e_c"))
        return self._module_attr(mod, attr)

    def _module_attr(self, mod, attr):
        if mod in ("math", "np", "numpy") and attr in ("inf", "infty", "Inf"):
            if mod != "math" and attr != "inf":
                raise Unsupported("numpy has no attribute %r in the installed version" % attr)
            return SV(EXT, z3.RealVal(0), z3.IntVal(1))
        return PyVal("func", name="%s.%s" % ("np" if mod == "numpy" else mod, attr))

    def norm_index(self, idx_node, length, st, spec):
        """index expression -> z3 Int term (python negative-constant convention); emits bounds obligation in code mode"""
        if isinstance(idx_node, ast.UnaryOp) and isinstance(idx_node.op, ast.USub) and isinstance(idx_node.operand, ast.Constant):
            k = idx_node.operand.value
            idx = length - k
            if not spec:
                self.ctx.oblige(st, "safe:index", length >= k, text="negative index -%d in range" % k)
            return idx
        iv = self.ev(idx_node, st, spec)
        if not is_sv(iv) or iv.ty.kind not in ("int", "bool"):
            raise Unsupported("index of type %r" % (iv,))
        idx = self.to_int(iv)
        if not spec and self.check_index:
            self.ctx.oblige(st, "safe:index", z3.And(0 <= idx, idx < length), text="index in range")
        return idx

    def ev_Subscript(self, node, st, spec):
        base = self.ev(node.value, st, spec)
        sl = node.slice
        if isinstance(base, PyVal):
            raise Unsupported("subscript of %r" % base)
        if base.ty.kind == "opt":
            base = self.unopt(base, st, spec)
        k = base.ty.kind
        if k == "ref":
            cd = self.reg.classes.get(base.ty.arg)
            if cd is not None and isinstance(sl, ast.Constant) and isinstance(sl.value, str):
                key = sl.value
                if self.reg.field(base.ty.arg, key) is None:
                    raise Unsupported("key %r of %s not declared" % (key, base.ty.arg))
                if cd.rec and key in cd.optional and not spec:
                    arr = st.harr("%s.has_%s" % (cd.name, key), z3.ArraySort(z3.IntSort(), z3.BoolSort()))
                    self.ctx.oblige(st, "safe:key", arr[base.t], text="key %r present" % key)
                return self.read_field(base, key, st, spec)
            if cd is not None and cd.rec and not isinstance(sl, ast.Constant):
                kv = self.ev(sl, st, spec)
                if is_sv(kv) and kv.ty.kind == "str":
                    # dynamic string key: one uninterpreted map (object -> key -> value) per record class
                    dk = "%s.$dyn" % cd.name
                    arr = st.harr(dk, z3.ArraySort(z3.IntSort(), z3.ArraySort(z3.IntSort(), z3.RealSort())))
                    self.ctx.models_used.add("dict access with a non-constant key: uninterpreted map (object, key) -> real")
                    return SV(REAL, arr[base.t][kv.t])
            con = self.reg.method_contract(base.ty.arg, "__getitem__")
            if con is not None:
                return self.apply_contract(con, [base, self.ev(sl, st, spec)], {}, st, "__getitem__", spec=spec)
            raise Unsupported("subscript of object %r" % (base.ty,))
        if isinstance(sl, ast.Slice):
            return self.slice_(base, sl, st, spec)
        if k == "tuple":
            iv = self.ev(sl, st, spec)
            s = z3.simplify(iv.t)
            if z3.is_int_value(s):
                return base.t[s.as_long()]
            raise Unsupported("symbolic tuple index")
        if k in ("list", "seq"):
            e, arr, off, ln = self.seq_of(base, st, spec)
            idx = self.norm_index(sl, ln, st, spec)
            v = SV(e, rd(arr, _ix(idx, off)))
            if e.kind in ("ref", "list") and not spec and st.qdepth == 0:
                st.assume(z3.And(v.t >= 1, v.t < st.alloc()))
            return v
        raise Unsupported("subscript of %r" % (base.ty,))

    def slice_(self, base, sl, st, spec):
        if sl.step is not None:
            raise Unsupported("slice step")
        e, arr, off, ln = self.seq_of(base, st, spec)

        def bound(n, default):
            if n is None:
                return default
            if isinstance(n, ast.UnaryOp) and isinstance(n.op, ast.USub) and isinstance(n.operand, ast.Constant):
                v = ln - n.operand.value
                return z3.If(v < 0, 0, v)
            v = self.to_int(self.ev(n, st, spec))
            # python clamps slice bounds; negative symbolic bounds are outside the subset
            if not spec:
                self.ctx.oblige(st, "safe:slice", v >= 0, text="slice bound non-negative")
            return z3.If(v > ln, ln, v)
        lo = bound(sl.lower, z3.IntVal(0))
        hi = bound(sl.upper, ln)
        length = z3.If(hi >= lo, hi - lo, 0)
        seq = mk_seq(e, arr, z3.simplify(off + lo), z3.simplify(length))
        if base.ty.kind == "list" and not spec and self.slices_allocate:
            return self.list_from_iter(seq, st)
        return seq

    # ------------------------------------------------------------------ lambda / comprehension
    def ev_Lambda(self, node, st, spec):
        return PyVal("lambda", node=node, env=dict(st.env), bound=dict(st.bound))

    def call_lambda(self, lam, args, st, spec):
        names = [a.arg for a in lam.node.args.args]
        if len(names) != len(args):
            raise Unsupported("lambda arity")
        saved = st.bound
        st.bound = dict(saved)
        for k, v in lam.env.items():
            if k not in st.env:
                st.bound.setdefault(k, v)
        st.bound.update(dict(zip(names, args)))
        try:
            return self.ev(lam.node.body, st, spec)
        finally:
            st.bound = saved

    def ev_GeneratorExp(self, node, st, spec):
        return PyVal("genexp", node=node)

    def ev_ListComp(self, node, st, spec):
        return self.comprehension_list(node, st, spec)

    def ev_Call(self, node, st, spec):
        return self.call(node, st, spec)

    def ev_JoinedStr(self, node, st, spec):
        return PyVal("const", value="<fstring>")

    def ev_Dict(self, node, st, spec):
        if not node.keys:
            return self.new_record(st)
        for v in node.values:
            self.ev(v, st, spec)
        return PyVal("const", value="<dict literal>")

    def new_record(self, st):
        """dict() / {} stored where a record (dict with constant keys) lives: a fresh record object without keys"""
        hint = self.pending_list_type
        if hint is not None and hint.kind == "ref" and hint.arg in self.reg.classes and self.reg.classes[hint.arg].rec:
            r = st.new_ref()
            cd = self.reg.classes[hint.arg]
            for k in cd.optional:
                hk = "%s.has_%s" % (cd.name, k)
                arr = st.harr(hk, z3.ArraySort(z3.IntSort(), z3.BoolSort()))
                st.hset(hk, z3.Store(arr, r, z3.BoolVal(False)))
            return SV(hint, r)
        return PyVal("emptydict")

    def spec_text(self, text, st):
        node = ast.parse(text.strip(), mode="eval").body
        return self.ev(node, st, True)

"""Solver worker: one obligation (SMT-LIB2 text) per call; z3 API first, then the independent z3 4.8.12 binary, then cvc5."""
import subprocess
import time
import os


def solve(task):
    name, smt2, timeout_ms, want_model, second = task
    t0 = time.time()
    out = {"name": name, "verdict": "unknown", "backend": "z3-5.1(api)", "seconds": 0.0, "model": None, "reason": ""}
    try:
        import z3
        # pass 1: E-matching only (fast, complete enough for the trigger-annotated VCs); pass 2: default configuration
        s = z3.SolverFor("ALL") if False else z3.Solver()
        s.set("timeout", min(timeout_ms, 10000))
        s.set("auto_config", False)
        s.set("mbqi", False)
        s.from_string(smt2)
        r = s.check()
        if r != z3.unsat:
            s = z3.Solver()
            s.set("timeout", timeout_ms)
            s.from_string(smt2)
            r = s.check()
        else:
            out["backend"] = "z3-5.1(api,ematching)"
        if r == z3.unsat:
            out["verdict"] = "proved"
        elif r == z3.sat:
            out["verdict"] = "refuted"
            if want_model:
                try:
                    m = s.model()
                    out["model"] = {d.name(): str(m[d])[:400] for d in m.decls() if d.arity() == 0 and not d.name().startswith("k!")}
                except Exception as e:  # model printing must never turn a verdict into a crash
                    out["model"] = {"error": str(e)}
        else:
            out["reason"] = s.reason_unknown()
    except Exception as e:
        out["reason"] = "z3 api: %s" % e
    if out["verdict"] == "unknown" and second:
        for label, cmd in (("z3-4.8.12(bin)", ["/usr/bin/z3", "-in", "-T:%d" % max(1, timeout_ms // 1000)]),
                           ("cvc5-1.0.3(bin)", ["/usr/bin/cvc5", "--lang", "smt2", "--tlimit=%d" % timeout_ms])):
            if not os.path.exists(cmd[0]):
                continue
            try:
                p = subprocess.run(cmd, input=smt2 + "\n(check-sat)\n", capture_output=True, text=True, timeout=timeout_ms / 1000 + 5)
                first = (p.stdout.strip().split("\n") or [""])[0].strip()
                if first == "unsat":
                    out["verdict"], out["backend"] = "proved", label
                    break
                if first == "sat":
                    out["verdict"], out["backend"] = "refuted", label
                    break
            except Exception as e:
                out["reason"] += " | %s: %s" % (label, e)
    out["seconds"] = round(time.time() - t0, 3)
    return out

"""Solver worker: one obligation (SMT-LIB2 text) per call; z3 API first, then the independent z3 4.8.12 binary, then cvc5."""
import subprocess
import time
import os


import threading


_LAST = {}


def _check(z3, s, budget_ms, ematching=None, tactic=None):
    """s.check() with a hard stop.  z3's own timeout is not honoured inside some tactics (nlsat, preprocessing of large nonlinear
    goals), so a timer interrupts the solver's context a little after the budget.  The query runs in a PRIVATE context that is
    thrown away afterwards: an interrupt that arrives late can therefore never cancel a later, unrelated query (it did, when all
    queries shared the main context: verdicts became unknown at random)."""
    ctx = z3.Context()
    if tactic:
        s2 = z3.Then(*[z3.Tactic(t, ctx=ctx) for t in tactic], ctx=ctx).solver()
    else:
        s2 = z3.Solver(ctx=ctx)
    s2.set("timeout", int(budget_ms))
    if ematching is None:
        ematching = getattr(s, "_pyvc_ematching", False)
    if ematching:
        s2.set("auto_config", False)
        s2.set("mbqi", False)
    s2.add([a.translate(ctx) for a in s.assertions()])
    t = threading.Timer(budget_ms / 1000.0 + 3.0, ctx.interrupt)
    t.daemon = True
    t.start()
    try:
        r = s2.check()
    except z3.Z3Exception:
        r = z3.unknown
    finally:
        t.cancel()
    _LAST["solver"] = s2
    return r


def _case_split(z3, smt2, timeout_ms):
    """the goal's skolem index against the index of the element the loop body just processed: three E-matching queries
    (<, ==, >) instead of one; every case must be unsat (a complete case distinction, so this is a proof by cases)"""
    fs = z3.parse_smt2_string(smt2)
    terms, rest = [], []
    for f in fs:
        if z3.is_app(f) and f.decl().name() == "split!Int":
            terms.append(f.arg(0))
        else:
            rest.append(f)
    sks, seen = [], set()

    def walk(t):
        if t.get_id() in seen:
            return
        seen.add(t.get_id())
        if z3.is_quantifier(t):
            walk(t.body())
            return
        if z3.is_const(t) and t.decl().kind() == z3.Z3_OP_UNINTERPRETED and t.decl().name().startswith("sk!") \
                and t.sort().kind() == z3.Z3_INT_SORT:
            sks.append(t)
        for c in t.children():
            walk(c)
    for f in rest:
        walk(f)
    if not sks:
        return None
    ids = {s.get_id(): s for s in sks}
    how = _ite_split(z3, rest, ids, timeout_ms)      # cheapest when it applies (cases are decided in milliseconds)
    if how:
        return how
    if not terms:
        return _eq_split(z3, rest, sks, timeout_ms)

    def unsat_with(extra):
        s = z3.Solver()
        s.set("timeout", timeout_ms)
        s.add(*rest)
        s.add(*extra)
        return _check(z3, s, timeout_ms, ematching=True) == z3.unsat
    for t in terms[:3]:
        cases = [[]]
        for sk in sks[:2]:
            cases = [c + [rel] for c in cases for rel in (sk < t, sk == t, sk > t)]
        if all(unsat_with(c) for c in cases):
            return "%d cases on %s" % (len(cases), t)
    return _eq_split(z3, rest, sks, timeout_ms)


def _eq_split(z3, fs, sks, timeout_ms):
    """read-over-write expansions leave  ite(sk == t, new, old[sk])  in the goal: distinguish  sk == t1 | sk == t2 | neither
    for every skolem index (a complete case distinction) and decide each case by E-matching"""
    cands = {s.get_id(): [] for s in sks}
    ids = {s.get_id(): s for s in sks}
    seen = set()

    def walk(t):
        if t.get_id() in seen:
            return
        seen.add(t.get_id())
        if z3.is_quantifier(t):
            return
        if z3.is_eq(t) and t.arg(0).sort().kind() == z3.Z3_INT_SORT:
            a, b = t.arg(0), t.arg(1)
            for x, y in ((a, b), (b, a)):
                if x.get_id() in ids and y.get_id() not in ids and not any(y.eq(c) for c in cands[x.get_id()]):
                    cands[x.get_id()].append(y)
        for c in t.children():
            walk(c)
    for f in fs:
        if not z3.is_quantifier(f):
            walk(f)
    use = [(ids[k], v[:3]) for k, v in cands.items() if v][:2]
    if not use:
        return None
    cases = [[]]
    for sk, ts in use:
        opts = [[sk == t] for t in ts] + [[sk != t for t in ts]]
        cases = [c + o for c in cases for o in opts]
    for c in cases:
        s = z3.Solver()
        s.set("timeout", timeout_ms)
        s.add(*fs)
        s.add(*c)
        if _check(z3, s, timeout_ms, ematching=True) != z3.unsat:
            return None
    return "%d equality cases on %s" % (len(cases), ", ".join(str(sk) for sk, _ in use))


def _ite_split(z3, fs, ids, timeout_ms):
    """case distinction on the conditions of if-then-else terms that mention a skolem index (is the element the object that was
    just written?): all 2^k combinations of up to 4 conditions, each decided by E-matching"""
    conds, seen, memo = [], set(), {}

    def mentions(t):
        k = t.get_id()
        if k not in memo:
            memo[k] = (k in ids) or (mentions(t.body()) if z3.is_quantifier(t) else any(mentions(c) for c in t.children()))
        return memo[k]

    def walk(t, inq):
        if (t.get_id(), inq) in seen:
            return
        seen.add((t.get_id(), inq))
        if z3.is_quantifier(t):
            walk(t.body(), True)
            return
        if z3.is_app(t) and t.decl().kind() == z3.Z3_OP_ITE:
            c = t.arg(0)
            if mentions(c) and not _has_var(z3, c) and not any(c.eq(x) for x in conds):
                conds.append(c)
        for c in t.children():
            walk(c, inq)
    for f in fs:
        if z3.is_app(f) and f.decl().name().startswith(("hint!", "split!")):
            continue
        if mentions(f):
            walk(f, False)
    conds = conds[:4]
    # a store that read-over-write could not expand (its array is itself an if-then-else): whether a skolem index hits the
    # stored position is a further case distinction
    idxs, seen_s = [], set()

    def stores(t):
        if t.get_id() in seen_s:
            return
        seen_s.add(t.get_id())
        if z3.is_quantifier(t):
            stores(t.body())
            return
        if z3.is_app(t) and t.decl().kind() == z3.Z3_OP_STORE and t.arg(1).sort().kind() == z3.Z3_INT_SORT:
            ix = t.arg(1)
            if not _has_var(z3, ix) and ix.get_id() not in ids and not any(ix.eq(x) for x in idxs):
                idxs.append(ix)
        for c in t.children():
            stores(c)
    if conds:
        for f in fs:
            if not (z3.is_app(f) and f.decl().name().startswith(("hint!", "split!"))) and mentions(f):
                stores(f)
        for sk in list(ids.values())[:2]:
            for ix in idxs[:2]:
                if len(conds) < 6 and sk.sort().eq(ix.sort()):
                    conds.append(sk == ix)
    if not conds:
        return None
    import itertools
    for bits in itertools.product((True, False), repeat=len(conds)):
        s = z3.Solver()
        s.set("timeout", timeout_ms)
        s.add(*fs)
        s.add(*[c if b else z3.Not(c) for c, b in zip(conds, bits)])
        if _check(z3, s, timeout_ms, ematching=True) != z3.unsat:
            return None
    return "%d if-then-else cases" % (2 ** len(conds))


def _has_var(z3, t, memo={}):
    k = t.get_id()
    if k not in memo:
        memo[k] = z3.is_var(t) or any(_has_var(z3, c) for c in t.children())
    return memo[k]


def solve(task):
    name, smt2, timeout_ms, want_model, second = task
    t0 = time.time()
    out = {"name": name, "verdict": "unknown", "backend": "z3-5.1(api)", "seconds": 0.0, "model": None, "reason": ""}
    try:
        import z3
        # pass 0: the quantifier-free part of the hypotheses alone (dropping hypotheses is sound for a proof): nonlinear
        # arithmetic goals are decided by nlsat here, which the quantified context otherwise prevents
        def _has_q(t, memo={}):
            k = t.get_id()
            if k in memo:
                return memo[k]
            r = z3.is_quantifier(t) or any(_has_q(c) for c in t.children())
            memo[k] = r
            return r
        ARITH = {z3.Z3_OP_ADD, z3.Z3_OP_SUB, z3.Z3_OP_MUL, z3.Z3_OP_DIV, z3.Z3_OP_UMINUS, z3.Z3_OP_LE, z3.Z3_OP_GE, z3.Z3_OP_LT,
                 z3.Z3_OP_GT, z3.Z3_OP_EQ, z3.Z3_OP_DISTINCT, z3.Z3_OP_AND, z3.Z3_OP_OR, z3.Z3_OP_NOT, z3.Z3_OP_IMPLIES,
                 z3.Z3_OP_ITE, z3.Z3_OP_TO_REAL, z3.Z3_OP_ANUM, z3.Z3_OP_TRUE, z3.Z3_OP_FALSE, z3.Z3_OP_IFF, z3.Z3_OP_XOR}

        def _purify(t, memo):
            """abstract every non-arithmetic subterm by a constant (equal terms -> same constant): a pure polynomial problem
            that nlsat decides; forgetting structure is sound for a proof"""
            k = t.get_id()
            if k in memo:
                return memo[k]
            if z3.is_int_value(t) or z3.is_rational_value(t) or z3.is_true(t) or z3.is_false(t):
                r = t
            elif z3.is_app(t) and t.decl().kind() in ARITH and all(
                    c.sort().kind() in (z3.Z3_REAL_SORT, z3.Z3_INT_SORT, z3.Z3_BOOL_SORT) for c in t.children()):
                ch = [_purify(c, memo) for c in t.children()]
                r = t.decl()(*ch) if ch else t
            else:
                r = z3.Const("abs!%d" % k, t.sort()) if t.sort().kind() in (z3.Z3_REAL_SORT, z3.Z3_INT_SORT, z3.Z3_BOOL_SORT) else t
            memo[k] = r
            return r
        try:
            fs = z3.parse_smt2_string(smt2)
            ground = [f for f in fs if not _has_q(f)]
            if len(ground) < len(fs) or True:
                memo = {}
                pure = [_purify(f, memo) for f in ground]
                s0 = z3.Solver()
                s0.set("timeout", min(timeout_ms, 3000))
                s0.add(*pure)
                if _check(z3, s0, min(timeout_ms, 3000)) == z3.unsat:
                    out["verdict"], out["backend"] = "proved", "z3-5.1(api,purified-ground-part,nlsat)"
                    out["seconds"] = round(time.time() - t0, 3)
                    return out
            # pass 0b: the same quantifier-free hypotheses with uninterpreted functions kept (congruence + arithmetic)
            if len(ground) < len(fs):
                s1 = z3.Solver()
                s1.add(*ground)
                if _check(z3, s1, min(timeout_ms, 5000)) == z3.unsat:
                    out["verdict"], out["backend"] = "proved", "z3-5.1(api,ground-part)"
                    out["seconds"] = round(time.time() - t0, 3)
                    return out
        except Exception as e:
            out["reason"] = "ground pass: %s" % e
        # a quantifier-free goal with products of unknowns (polynomial identity / inequality): E-matching has nothing to offer,
        # go straight to the equation-solving pipeline
        try:
            goal_fs = [f for f in fs if not (z3.is_app(f) and f.decl().name().startswith(("hint!", "split!")))]
            g = goal_fs[-1] if goal_fs else None

            def _nl(t, memo={}):
                k = t.get_id()
                if k not in memo:
                    memo[k] = (z3.is_mul(t) and sum(1 for c in t.children() if not (z3.is_rational_value(c) or z3.is_int_value(c))) >= 2) \
                        or any(_nl(c) for c in t.children())
                return memo[k]
            if g is not None and not _has_q(g) and _nl(g):
                s = z3.Solver()
                s.from_string(smt2)
                if _check(z3, s, min(timeout_ms, 15000), tactic=("simplify", "solve-eqs", "smt")) == z3.unsat:
                    out["verdict"], out["backend"] = "proved", "z3-5.1(api,solve-eqs+smt)"
                    out["seconds"] = round(time.time() - t0, 3)
                    return out
        except Exception as e:
            out["reason"] += " | nl pass: %s" % e
        # pass 1: E-matching only (fast, complete enough for the trigger-annotated VCs); pass 2: default configuration
        s = z3.SolverFor("ALL") if False else z3.Solver()
        has_split = "split!Int" in smt2 or "sk!" in smt2
        s.set("timeout", min(timeout_ms, 3000 if has_split else 20000))
        s.set("auto_config", False)
        s.set("mbqi", False)
        s.from_string(smt2)
        r = _check(z3, s, min(timeout_ms, 3000 if has_split else 20000), ematching=True)
        if r != z3.unsat and has_split:
            try:
                how = _case_split(z3, smt2, min(timeout_ms, 5000))
            except Exception as e:
                how = None
                out["reason"] += " | case split: %s" % e
            if how:
                out["verdict"], out["backend"] = "proved", "z3-5.1(api,ematching,case-split %s)" % how
                out["seconds"] = round(time.time() - t0, 3)
                return out
            s = z3.Solver()
            s.set("timeout", min(timeout_ms, 20000))
            s.set("auto_config", False)
            s.set("mbqi", False)
            s.from_string(smt2)
            r = _check(z3, s, min(timeout_ms, 20000), ematching=True)
        if r != z3.unsat:
            # pass 2: equalities solved away first (ghost facts and unfoldings are equations), then the SMT core: this is what
            # makes polynomial identities over many defined names robust (the plain solver wanders)
            if _check(z3, s, min(timeout_ms, 15000), tactic=("simplify", "solve-eqs", "smt")) == z3.unsat:
                out["verdict"], out["backend"] = "proved", "z3-5.1(api,solve-eqs+smt)"
                out["seconds"] = round(time.time() - t0, 3)
                return out
            s = z3.Solver()
            s.set("timeout", timeout_ms)
            s.from_string(smt2)
            r = _check(z3, s, timeout_ms, ematching=False)
        else:
            out["backend"] = "z3-5.1(api,ematching)"
        if r == z3.unsat:
            out["verdict"] = "proved"
        elif r == z3.sat:
            out["verdict"] = "refuted"
            if want_model:
                try:
                    m = _LAST["solver"].model()
                    out["model"] = {d.name(): str(m[d])[:400] for d in m.decls() if d.arity() == 0 and not d.name().startswith("k!")}
                except Exception as e:  # model printing must never turn a verdict into a crash
                    out["model"] = {"error": str(e)}
        else:
            out["reason"] = _LAST["solver"].reason_unknown()
    except Exception as e:
        out["reason"] = "z3 api: %s" % e
    if out["verdict"] == "unknown" and second:
        import shutil
        znew = shutil.which("z3-new")
        for label, cmd in ((("z3-5.1(bin)", [znew, "-in", "-T:%d" % max(1, timeout_ms // 1000)]),) if znew else ()) + \
                          (("z3-4.8.12(bin)", ["/usr/bin/z3", "-in", "-T:%d" % max(1, timeout_ms // 1000)]),
                           ("cvc5-1.0.3(bin)", ["/usr/bin/cvc5", "--lang", "smt2", "--tlimit=%d" % timeout_ms])):
            if not os.path.exists(cmd[0]):
                continue
            try:
                p = subprocess.run(cmd, input=smt2 + "\n(check-sat)\n", capture_output=True, text=True, timeout=timeout_ms / 1000 + 5)
                first = (p.stdout.strip().split("\n") or [""])[0].strip()
                if first == "unsat":
                    out["verdict"], out["backend"] = "proved", label
                    break
                if first == "sat":
                    out["verdict"], out["backend"] = "refuted", label
                    break
            except Exception as e:
                out["reason"] += " | %s: %s" % (label, e)
    out["seconds"] = round(time.time() - t0, 3)
    return out

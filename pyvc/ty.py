"""Static types of the contract language (DESIGN.md appendix C)."""
import z3


class Ty:
    __slots__ = ("kind", "arg")

    def __init__(self, kind, arg=None):
        self.kind = kind
        self.arg = arg

    def __eq__(self, o):
        return isinstance(o, Ty) and self.kind == o.kind and self.arg == o.arg

    def __hash__(self):
        return hash((self.kind, str(self.arg)))

    def __repr__(self):
        if self.kind == "ext":
            return "ExtReal"
        if self.kind in ("int", "real", "bool", "none", "str", "any"):
            return self.kind.capitalize()
        if self.kind == "ref":
            return "Ref[%s]" % self.arg
        if self.kind == "tuple":
            return "Tuple[%s]" % ",".join(map(repr, self.arg))
        return "%s[%r]" % (self.kind.capitalize(), self.arg)

    @property
    def is_num(self):
        return self.kind in ("int", "real", "bool")


EXT = Ty("ext")   # extended real: finite value or +/- infinity (math.inf in crowding distances)
INT = Ty("int")
REAL = Ty("real")
BOOL = Ty("bool")
NONE = Ty("none")
STR = Ty("str")


def Ref(c):
    return Ty("ref", c)


def List(t):
    return Ty("list", t)


def Seq(t):
    return Ty("seq", t)


def Opt(t):
    return Ty("opt", t)


def Tuple(ts):
    return Ty("tuple", tuple(ts))


def parse_ty(s):
    if isinstance(s, Ty):
        return s
    s = s.strip()
    pos = 0

    def parse():
        nonlocal pos
        start = pos
        while pos < len(s) and (s[pos].isalnum() or s[pos] == "_"):
            pos += 1
        name = s[start:pos]
        args = []
        if pos < len(s) and s[pos] == "[":
            pos += 1
            while True:
                args.append(parse())
                while pos < len(s) and s[pos] == " ":
                    pos += 1
                if s[pos] == ",":
                    pos += 1
                    while s[pos] == " ":
                        pos += 1
                    continue
                if s[pos] == "]":
                    pos += 1
                    break
                raise ValueError("bad type " + s)
        low = name.lower()
        if low in ("int", "real", "bool", "none", "str"):
            return Ty(low)
        if low == "float":
            return REAL
        if low == "extreal":
            return EXT
        if low == "ref":
            return Ty("ref", args[0].arg if isinstance(args[0], Ty) and args[0].kind == "ref" else args[0])
        if low == "list":
            return List(args[0])
        if low == "seq":
            return Seq(args[0])
        if low == "opt":
            return Opt(args[0])
        if low == "tuple":
            return Tuple(args)
        # bare class name -> reference
        if not args:
            return Ty("ref", name)
        raise ValueError("bad type " + s)

    t = parse()
    # Ref[Name] parses Name as a ref type itself; normalise
    if t.kind == "ref" and isinstance(t.arg, Ty):
        t = Ty("ref", t.arg.arg)
    return t


def sort_of(t):
    if t.kind == "int":
        return z3.IntSort()
    if t.kind == "real":
        return z3.RealSort()
    if t.kind == "bool":
        return z3.BoolSort()
    if t.kind in ("ref", "list", "str"):
        return z3.IntSort()
    raise TypeError("no single sort for %r" % (t,))


def elem_key(t):
    """key of the content array for lists with element type t"""
    if t.kind == "ref":
        return "Ref"
    if t.kind == "list":
        return "Ref"
    if t.kind == "str":
        return "Int"
    return t.kind.capitalize()

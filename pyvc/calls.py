"""Calls: builtins, library models, spec builtins (forall/exists/old/...), macros, contract application."""
import ast
import z3
from .ty import Ty, INT, REAL, BOOL, NONE, STR, EXT, Ref, List, Seq, Opt, Tuple, sort_of, elem_key, parse_ty
from .state import SV, PyVal, State, Snapshot, mk_int, mk_real, mk_bool, mk_none, mk_str, mk_tuple, mk_seq
from .ctx import Unsupported, RaiseSig, PathEnd
from .expr import is_sv, _ix, rd


def _collect(t, varset, out, seen):
    """candidate trigger terms: select / uninterpreted applications that mention bound constants directly and contain no
    variables of nested quantifiers; also looks inside nested quantifier bodies (z3 does not)"""
    key = t.get_id()
    if key in seen:
        return seen[key]
    if z3.is_quantifier(t):
        _collect(t.body(), varset, out, seen)
        seen[key] = (frozenset(), True)
        return seen[key]
    if z3.is_var(t):
        seen[key] = (frozenset(), True)
        return seen[key]
    if z3.is_const(t):
        r = (frozenset([t.get_id()]) if t.get_id() in varset else frozenset(), False)
        seen[key] = r
        return r
    vs, inner = frozenset(), False
    child = []
    for c in t.children():
        v, i = _collect(c, varset, out, seen)
        child.append((c, v, i))
        vs |= v
        inner = inner or i
    k = t.decl().kind()
    ok_kind = k == z3.Z3_OP_SELECT or k == z3.Z3_OP_UNINTERPRETED
    if not ok_kind and not z3.is_int_value(t) and not z3.is_rational_value(t):
        # anything else (ite, arithmetic, store, boolean structure) cannot occur inside a trigger
        inner_here = True
    else:
        inner_here = False
    if ok_kind and vs and not inner:
        # index arguments should be plain (no arithmetic on the bound variable) to be matchable
        plain = True
        for c, v, i in child:
            if v and not (z3.is_const(c) or c.decl().kind() in (z3.Z3_OP_SELECT, z3.Z3_OP_UNINTERPRETED)):
                plain = False
        if plain:
            out.append((t, vs))
    seen[key] = (vs, inner or inner_here)
    return seen[key]


def pattern_ok(t):
    if z3.is_int_value(t) or z3.is_rational_value(t) or z3.is_const(t):
        return True
    if z3.is_var(t) or z3.is_quantifier(t) or not z3.is_app(t):
        return False
    if t.decl().kind() not in (z3.Z3_OP_SELECT, z3.Z3_OP_UNINTERPRETED):
        return False
    return all(pattern_ok(c) for c in t.children())


def _mentions(t, ids, memo):
    k = t.get_id()
    if k in memo:
        return memo[k]
    if z3.is_const(t):
        r = k in ids
    elif z3.is_app(t):
        r = any(_mentions(c, ids, memo) for c in t.children())
    else:
        r = False
    memo[k] = r
    return r


def choose_patterns(vars_, body, outer_ids=None):
    varset = {v.get_id() for v in vars_}
    out = []
    _collect(body, varset, out, {})
    if not out:
        return None
    allv = frozenset(varset)
    # drop candidates that strictly contain a smaller candidate with the same variables (prefer small triggers)
    uniq = {}
    for t, vs in out:
        uniq[t.get_id()] = (t, vs)
    cands = list(uniq.values())

    def size(t):
        return len(t.sexpr())
    cands.sort(key=lambda c: size(c[0]))
    full = [t for t, vs in cands if vs == allv]
    if outer_ids:
        # inside another quantifier: triggers that also mention the enclosing bound variables fire only for the instance at
        # hand; triggers that do not would fire for every instance of the enclosing quantifier x every ground term
        memo = {}
        tied = [t for t in full if _mentions(t, outer_ids, memo)]
        if tied:
            full = tied
    minimal = []
    for t in full:
        if not any(_contains(t, m) for m in minimal):
            minimal.append(t)
    pats = list(minimal[:4])
    if len(allv) > 1:
        # also: cover all variables with a multi-pattern of the smallest single-variable terms
        cover, have = [], frozenset()
        for t, vs in cands:
            if len(vs) == 1 and not vs <= have:
                cover.append(t)
                have |= vs
            if have == allv:
                break
        if have != allv:
            cover, have = [], frozenset()
            for t, vs in cands:
                if vs != allv and not vs <= have:
                    cover.append(t)
                    have |= vs
                if have == allv:
                    break
        if have == allv and len(cover) > 1:
            pats.append(z3.MultiPattern(*cover))
    return pats or None


def _contains(t, sub):
    if t.get_id() == sub.get_id():
        return True
    return any(_contains(c, sub) for c in t.children())


class CallMixin:
    def call(self, node, st, spec):
        f = node.func
        # spec builtins first (they take lambdas / unevaluated args)
        if isinstance(f, ast.Name) and spec:
            m = getattr(self, "spec_" + f.id, None)
            if m is not None and st.get(f.id) is None:
                return m(node, st)
            if f.id in self.reg.macros and st.get(f.id) is None:
                return self.expand_macro(self.reg.macros[f.id], [self.ev(a, st, True) for a in node.args], st)
            if f.id in self.reg.funs:
                return self.apply_fun(self.reg.funs[f.id], [self.ev(a, st, True) for a in node.args], st)
        if isinstance(f, ast.Attribute) and f.attr in ("debug", "info", "warning", "error", "critical") and \
                isinstance(f.value, ast.Attribute) and f.value.attr == "logger":
            return mk_none()        # logging has no effect on the modelled state; its arguments are not evaluated
        callee = self.ev(f, st, spec)
        if isinstance(callee, PyVal) and callee.kind == "func" and callee.name in ("print",):
            return mk_none()
        if isinstance(callee, PyVal) and callee.kind == "boundmethod" and callee.name in ("debug", "info", "warning", "error") :
            return mk_none()
        args = []
        saved_hint = self.pending_list_type
        if isinstance(callee, PyVal) and callee.kind == "boundmethod" and callee.name in ("append", "insert") and \
                is_sv(getattr(callee, "recv", None)) and callee.recv.ty.kind == "list":
            self.pending_list_type = callee.recv.ty.arg      # xs.append([]) : the empty literal takes the element type of xs
        try:
            for a in node.args:
                if isinstance(a, ast.Starred):
                    v = self.ev(a.value, st, spec)
                    args.append(PyVal("starred", value=v))
                else:
                    args.append(self.ev(a, st, spec))
        finally:
            self.pending_list_type = saved_hint
        kwargs = {k.arg: self.ev(k.value, st, spec) for k in node.keywords}
        return self.apply(callee, args, kwargs, st, spec, node)

    def apply(self, callee, args, kwargs, st, spec, node=None):
        if isinstance(callee, PyVal):
            if callee.kind == "func":
                return self.call_function(callee.name, args, kwargs, st, spec, node)
            if callee.kind == "boundmethod":
                return self.call_method(callee, args, kwargs, st, spec, node)
            if callee.kind == "lambda":
                return self.call_lambda(callee, args, st, spec)
            if callee.kind == "class":
                return self.construct(callee.name, args, kwargs, st, node)
            if callee.kind == "classattr":
                con = self.reg.method_contract(callee.cls, callee.name)
                if con is not None:
                    if con.params is None and self.frontend.is_classmethod(self.frontend.function_node(con)):
                        args = [PyVal("class", name=callee.cls)] + list(args)
                    return self.apply_contract(con, args, kwargs, st, "%s.%s" % (callee.cls, callee.name), spec=spec, static=True)
        raise Unsupported("call of %r" % (callee,))

    # ------------------------------------------------------------------ plain functions / builtins
    def call_function(self, name, args, kwargs, st, spec, node):
        m = getattr(self, "bi_" + name.replace(".", "_"), None)
        if m is not None:
            return m(args, kwargs, st, spec)
        if name == "super":
            slf = st.get("self")
            return PyVal("super", recv=slf, cls=self.cur_class)
        con = self.reg.function_contract(name)
        if con is not None:
            return self.apply_contract(con, args, kwargs, st, name, spec=spec)
        lib = self.reg.function_contract("lib:" + name)
        if lib is not None:
            return self.apply_contract(lib, args, kwargs, st, name, spec=spec)
        raise Unsupported("call of function %s without contract or model" % name)

    def bi_len(self, args, kwargs, st, spec):
        v = args[0]
        if isinstance(v, PyVal):
            raise Unsupported("len of %r" % v)
        if v.ty.kind == "opt":
            v = self.unopt(v, st, spec)
        if v.ty.kind == "list":
            return mk_int(self.list_len(v, st, spec))
        if v.ty.kind == "seq":
            return mk_int(v.aux[1])
        if v.ty.kind == "tuple":
            return mk_int(len(v.t))
        if v.ty.kind == "ref":
            con = self.reg.method_contract(v.ty.arg, "__len__")
            if con is not None:
                return self.apply_contract(con, [v], {}, st, "__len__", spec=spec)
        raise Unsupported("len of %r" % (v.ty,))

    def bi_abs(self, args, kwargs, st, spec):
        v = args[0]
        if v.ty.kind == "opt":
            v = self.unopt(v, st, spec)
        if v.ty.kind == "real":
            return SV(REAL, z3.If(v.t >= 0, v.t, -v.t))
        t = self.to_int(v)
        return SV(INT, z3.If(t >= 0, t, -t))
    bi_math_fabs = bi_abs
    bi_np_fabs = bi_abs
    bi_np_abs = bi_abs

    def _minmax(self, args, st, spec, is_min, kwargs=None):
        if len(args) == 1:
            return self._minmax_seq(args[0], st, spec, is_min, (kwargs or {}).get("key"))
        acc = args[0]
        for b in args[1:]:
            if acc.ty.kind == "ext" or b.ty.kind == "ext":
                ea, eb = self.coerce(acc, EXT, st), self.coerce(b, EXT, st)
                lt = lambda p, q: z3.Or(p.aux < q.aux, z3.And(p.aux == 0, q.aux == 0, p.t < q.t))
                c = lt(eb, ea) if is_min else lt(ea, eb)
                acc = SV(EXT, z3.If(c, eb.t, ea.t), z3.If(c, eb.aux, ea.aux))
                continue
            ty, x, y = self.num_pair(acc, b)
            # python: min(a,b) returns a unless b < a ; max(a,b) returns a unless b > a
            acc = SV(ty, z3.If(y < x, y, x) if is_min else z3.If(y > x, y, x))
        return acc

    def _minmax_seq(self, v, st, spec, is_min, key=None):
        """min / max of a non-empty sequence: some element that no other element beats (ties: the library returns the first)"""
        e, arr, off, ln = self.seq_of(v, st, spec)
        if not spec:
            self.ctx.oblige(st, "safe:minmax", ln > 0, text="min/max of a non-empty sequence")
        w = self.ctx.fresh("argopt", z3.IntSort())
        st.assume(z3.And(0 <= w, w < ln))
        i = self.ctx.fresh("i", z3.IntSort())
        res = SV(e, arr[_ix(w, off)])
        elem = SV(e, arr[_ix(i, off)])
        st.qdepth += 1
        st.qids.add(i.get_id())
        try:
            if key is not None:
                kr = self.apply(key, [res], {}, st, True)
                ke = self.apply(key, [elem], {}, st, True)
            else:
                kr, ke = res, elem
            ty, x, y = self.num_pair(kr, ke)
        finally:
            st.qdepth -= 1
            st.qids.discard(i.get_id())
        st.assume(z3.ForAll([i], z3.Implies(z3.And(0 <= i, i < ln), (x <= y) if is_min else (x >= y)),
                            patterns=[arr[_ix(i, off)]] if pattern_ok(arr) and z3.is_int_value(off) and off.as_long() == 0 else [],
                            qid="minmax_%s" % w))
        if e.kind in ("ref", "list"):
            st.assume(z3.And(res.t >= 1, res.t < st.alloc()))
        st.env["_arg_index"] = mk_int(w)
        self.ctx.models_used.add("min/max(seq[, key]): an element of the sequence that is <= / >= every element (by the key)")
        return res

    def bi_min(self, args, kwargs, st, spec):
        return self._minmax(args, st, spec, True, kwargs)

    def bi_max(self, args, kwargs, st, spec):
        return self._minmax(args, st, spec, False, kwargs)

    def bi_np_allclose(self, args, kwargs, st, spec):
        a, b = args[0], args[1]
        rtol = self.to_real(kwargs["rtol"]) if "rtol" in kwargs else z3.RealVal("1/100000")
        atol = self.to_real(kwargs["atol"]) if "atol" in kwargs else z3.RealVal("1/100000000")
        e1, arr1, off1, l1 = self.seq_of(a, st, spec)
        e2, arr2, off2, l2 = self.seq_of(b, st, spec)
        if not spec:
            self.ctx.oblige(st, "safe:shape", l1 == l2, text="np.allclose on sequences of equal length")
        i = self.ctx.fresh("i", z3.IntSort())
        x, y = self.to_real(SV(e1, arr1[_ix(i, off1)])), self.to_real(SV(e2, arr2[_ix(i, off2)]))
        ab = lambda t: z3.If(t >= 0, t, -t)
        self.ctx.models_used.add("np.allclose(a, b): |a_i - b_i| <= atol + rtol * |b_i| for every i (defaults 1e-8, 1e-5)")
        return mk_bool(z3.ForAll([i], z3.Implies(z3.And(0 <= i, i < l1), ab(x - y) <= atol + rtol * ab(y)), qid="allclose_%s" % i))

    def bi_math_isclose(self, args, kwargs, st, spec):
        x, y = self.to_real(args[0]), self.to_real(args[1])
        rtol = self.to_real(kwargs["rel_tol"]) if "rel_tol" in kwargs else z3.RealVal("1/1000000000")
        atol = self.to_real(kwargs["abs_tol"]) if "abs_tol" in kwargs else z3.RealVal(0)
        ab = lambda t: z3.If(t >= 0, t, -t)
        mx = z3.If(ab(x) >= ab(y), ab(x), ab(y))
        bound = z3.If(rtol * mx >= atol, rtol * mx, atol)
        self.ctx.models_used.add("math.isclose(a, b): |a - b| <= max(rel_tol * max(|a|, |b|), abs_tol) (defaults 1e-9, 0)")
        return mk_bool(ab(x - y) <= bound)
    bi_isclose = bi_math_isclose
    bi_np_isclose = bi_math_isclose

    def bi_np_subtract(self, args, kwargs, st, spec):
        a, b = args
        e1, arr1, off1, l1 = self.seq_of(a, st, spec)
        e2, arr2, off2, l2 = self.seq_of(b, st, spec)
        if not spec:
            self.ctx.oblige(st, "safe:shape", l1 == l2, text="np.subtract on sequences of equal length")
        j = self.ctx.fresh("j", z3.IntSort())
        if st.qdepth > 0:
            arr = z3.Lambda([j], arr1[_ix(j, off1)] - arr2[_ix(j, off2)])
        else:
            plain = all(z3.is_int_value(o) and o.as_long() == 0 for o in (off1, off2))
            arr = self.defined_array("sub", z3.ArraySort(z3.IntSort(), z3.RealSort()),
                                     lambda t: arr1[_ix(t, off1)] - arr2[_ix(t, off2)], st,
                                     also=[arr1, arr2] if plain else (), rng=(z3.IntVal(0), l1) if plain else None)
        self.ctx.models_used.add("np.subtract(a, b): element-wise difference of two equally long sequences")
        return mk_seq(REAL, arr, z3.IntVal(0), l1)

    def bi_float(self, args, kwargs, st, spec):
        v = args[0]
        if is_sv(v) and v.ty.kind == "str" and v.aux == "inf":
            raise Unsupported("float('inf')")
        return SV(REAL, self.to_real(v))

    def bi_int(self, args, kwargs, st, spec):
        v = args[0]
        if v.ty.kind in ("int", "bool"):
            return SV(INT, self.to_int(v))
        # truncation toward zero
        t = v.t
        return SV(INT, z3.If(t >= 0, z3.ToInt(t), -z3.ToInt(-t)))

    def bi_bool(self, args, kwargs, st, spec):
        return mk_bool(self.truthy(args[0], st))

    def bi_range(self, args, kwargs, st, spec):
        a = [self.to_int(x) for x in args]
        if len(a) == 1:
            return PyVal("range", lo=z3.IntVal(0), hi=a[0], step=1)
        if len(a) == 2:
            return PyVal("range", lo=a[0], hi=a[1], step=1)
        s = z3.simplify(a[2])
        if z3.is_int_value(s) and s.as_long() == 1:
            return PyVal("range", lo=a[0], hi=a[1], step=1)
        raise Unsupported("range step")

    def bi_zip(self, args, kwargs, st, spec):
        return PyVal("zip", parts=list(args))

    def bi_enumerate(self, args, kwargs, st, spec):
        return PyVal("enumerate", inner=args[0])

    def bi_list(self, args, kwargs, st, spec):
        if not args:
            hint = self.pending_list_type
            if hint is None or hint.kind != "list":
                raise Unsupported("list() of unknown element type")
            return self.new_list(hint.arg, None, z3.IntVal(0), st)
        v = args[0]
        if is_sv(v) and v.ty.kind in ("list", "seq", "tuple"):
            if spec:
                e, arr, off, ln = self.seq_of(v, st, spec)
                return mk_seq(e, arr, off, ln)
            return self.list_from_iter(v, st)
        if isinstance(v, PyVal) and v.kind == "map":
            return self.map_to_list(v, st, spec)
        if isinstance(v, PyVal) and v.kind == "listof":
            return v.value
        if isinstance(v, PyVal) and v.kind == "setof":
            return self.set_to_list(v.value, st)
        raise Unsupported("list(%r)" % (v,))

    def bi_dict(self, args, kwargs, st, spec):
        if args or kwargs:
            raise Unsupported("dict(...) with arguments")
        return self.new_record(st)

    def bi_np_zeros(self, args, kwargs, st, spec):
        n = self.to_int(args[0])
        self.ctx.models_used.add("np.zeros(n): a fresh sequence of n zeros (1-D arrays are modelled as lists of reals)")
        return self.new_list(REAL, z3.K(z3.IntSort(), z3.RealVal(0)), z3.If(n >= 0, n, 0), st)

    def bi_np_round(self, args, kwargs, st, spec):
        d = kwargs.get("decimals", args[1] if len(args) > 1 else mk_int(0))
        return self.bi_round([args[0], d], {}, st, spec)

    def bi_set(self, args, kwargs, st, spec):
        if len(args) != 1 or not is_sv(args[0]):
            raise Unsupported("set() of %r" % (args,))
        return PyVal("setof", value=args[0])

    def set_to_list(self, src, st):
        """list(set(L)) for a list of objects with contracted __eq__ / __hash__ (DESIGN.md 4.1): the kept elements U are
        elements of L at pairwise distinct positions (witness _set_src), every element of L is represented by a kept element
        that is the same object or has the same hash and compares equal (witness _set_rep), kept elements are pairwise not
        duplicates in that sense; the order of U is arbitrary."""
        e, arr, off, n = self.seq_of(src, st)
        if e.kind != "ref":
            raise Unsupported("set() of non-objects")
        ceq = self.reg.method_contract(e.arg, "__eq__")
        chash = self.reg.method_contract(e.arg, "__hash__")
        if not (ceq and chash and ceq.pure and chash.pure):
            raise Unsupported("set() needs pure __eq__ / __hash__ contracts for %s" % e.arg)
        ctx = self.ctx
        U = ctx.fresh("setlist", z3.ArraySort(z3.IntSort(), z3.IntSort()))
        m = ctx.fresh("setlen", z3.IntSort())
        srcof = ctx.fresh("setsrc", z3.ArraySort(z3.IntSort(), z3.IntSort()))
        rep = ctx.fresh("setrep", z3.ArraySort(z3.IntSort(), z3.IntSort()))
        i, i2, j = ctx.fresh("i", z3.IntSort()), ctx.fresh("i2", z3.IntSort()), ctx.fresh("j", z3.IntSort())
        at = lambda t: arr[_ix(t, off)]

        def dup(a, b):
            st.qdepth += 1
            st.qids.update((i.get_id(), i2.get_id(), j.get_id()))
            try:
                ha = self.apply_contract(chash, [SV(e, a)], {}, st, "__hash__", spec=True)
                hb = self.apply_contract(chash, [SV(e, b)], {}, st, "__hash__", spec=True)
                eq = self.truthy(self.apply_contract(ceq, [SV(e, a), SV(e, b)], {}, st, "__eq__", spec=True), st)
            finally:
                st.qdepth -= 1
                st.qids.difference_update((i.get_id(), i2.get_id(), j.get_id()))
            return z3.And(ha.t == hb.t, z3.Or(a == b, eq))
        st.assume(z3.And(0 <= m, m <= n, z3.Implies(n > 0, m >= 1)))
        st.assume(z3.ForAll([i], z3.Implies(z3.And(0 <= i, i < m),
                                            z3.And(0 <= srcof[i], srcof[i] < n, U[i] == at(srcof[i]), U[i] >= 1, U[i] < st.alloc())),
                            patterns=[U[i]], qid="set_src"))
        st.assume(z3.ForAll([i, i2], z3.Implies(z3.And(0 <= i, i < m, 0 <= i2, i2 < m, i != i2),
                                                z3.And(srcof[i] != srcof[i2], z3.Not(dup(U[i], U[i2])))),
                            patterns=[z3.MultiPattern(U[i], U[i2])], qid="set_nodup"))
        st.assume(z3.ForAll([j], z3.Implies(z3.And(0 <= j, j < n),
                                            z3.And(0 <= rep[j], rep[j] < m, z3.Or(U[rep[j]] == at(j), dup(U[rep[j]], at(j))))),
                            patterns=[rep[j]] + ([at(j)] if pattern_ok(arr) and z3.is_int_value(off) and off.as_long() == 0 else []),
                            qid="set_rep"))
        self.ctx.models_used.add("list(set(L)): hash-set de-duplication through the element class's __eq__/__hash__ contracts "
                                 "(kept elements at distinct positions of L, every element represented, kept pairwise non-duplicates, arbitrary order)")
        st.env["_set_src"] = mk_seq(INT, srcof, z3.IntVal(0), m)
        st.env["_set_rep"] = mk_seq(INT, rep, z3.IntVal(0), n)
        return self.new_list(e, U, m, st)

    def bi_tuple(self, args, kwargs, st, spec):
        v = args[0]
        e, arr, off, ln = self.seq_of(v, st, spec)
        return mk_seq(e, arr, off, ln)

    def bi_isinstance(self, args, kwargs, st, spec):
        v, c = args
        if is_sv(v) and isinstance(c, PyVal) and c.kind == "func" and c.name == "complex":
            return mk_bool(False)
        if is_sv(v) and v.ty.kind == "ref" and isinstance(c, PyVal) and c.kind == "class":
            if self.subclass(v.ty.arg, c.name):
                return mk_bool(True)
        raise Unsupported("isinstance")

    def bi_hasattr(self, args, kwargs, st, spec):
        v, a = args
        if is_sv(v) and a.ty.kind == "str":
            if v.ty.kind == "list" and a.aux in ("__iter__", "__getitem__"):
                return mk_bool(True)
            if v.ty.kind == "ref" and a.aux == "__iter__":
                return mk_bool(self.reg.method_contract(v.ty.arg, "__iter__") is not None)
            if v.ty.kind == "ref" and self.reg.field(v.ty.arg, "has_" + a.aux) is not None:
                return self.read_field(v, "has_" + a.aux, st, spec)      # optional user hook: a boolean attribute of the object
        raise Unsupported("hasattr")

    def bi_time_time(self, args, kwargs, st, spec):
        return SV(REAL, self.ctx.fresh("time", z3.RealSort()))

    def bi_sys_exc_info(self, args, kwargs, st, spec):
        return PyVal("const", value="<exc_info>")

    def bi_round(self, args, kwargs, st, spec):
        if len(args) != 1:
            # round(x, n): decimal rounding is kept uninterpreted (a function of its arguments)
            f = z3.Function("round_dec", z3.RealSort(), z3.IntSort(), z3.RealSort())
            self.ctx.models_used.add("round(x, n) / np.round(x, decimals=n): uninterpreted function round_dec(x, n)")
            return SV(REAL, f(self.to_real(args[0]), self.to_int(args[1])))
        v = args[0]
        if v.ty.kind == "int":
            return v
        r = self.ctx.fresh("round", z3.IntSort())
        # round half to even is within 1/2 of the argument
        st.assume(z3.And(z3.ToReal(r) - v.t <= z3.RealVal("1/2"), v.t - z3.ToReal(r) <= z3.RealVal("1/2")))
        self.ctx.models_used.add("round(x): an integer within 1/2 of x (real arithmetic)")
        return SV(INT, r)

    def bi_all(self, args, kwargs, st, spec):
        return self._allany(args[0], st, spec, True)

    def bi_any(self, args, kwargs, st, spec):
        return self._allany(args[0], st, spec, False)

    def _allany(self, g, st, spec, is_all):
        if not (isinstance(g, PyVal) and g.kind == "genexp"):
            raise Unsupported("all/any of non-generator")
        node = g.node
        if len(node.generators) != 1:
            raise Unsupported("nested generator")
        gen = node.generators[0]
        it = self.ev(gen.iter, st, spec)
        e, arr, off, ln = self.seq_of(it, st, spec)
        i = self.ctx.fresh("i", z3.IntSort())
        # a list that was just extended / updated is store(base, k, v): the body is evaluated separately for the written
        # positions (ground instances) and for base[i], instead of once on ite(i == k, v, base[i]) (no usable trigger)
        alts, base_arr = [], arr
        if z3.is_int_value(off) and off.as_long() == 0:
            while z3.is_app(base_arr) and base_arr.decl().kind() == z3.Z3_OP_STORE and len(alts) < 3:
                alts.append((base_arr.arg(1), base_arr.arg(2)))
                base_arr = base_arr.arg(0)
        saved = st.bound

        def body_for(elem_t, guard):
            st.bound = dict(saved)
            self.bind_target(gen.target, SV(e, elem_t), st, bound=True)
            st.qdepth += 1
            st.qids.add(i.get_id())
            st.qguards.append(guard)
            try:
                cs = [self.truthy(self.ev(c, st, spec), st) for c in gen.ifs]
                b = self.truthy(self.ev(node.elt, st, spec), st)
            finally:
                st.bound = saved
                st.qdepth -= 1
                st.qids.discard(i.get_id())
                st.qguards.pop()
            return z3.And(*cs) if cs else z3.BoolVal(True), b
        in_rng = z3.And(0 <= i, i < ln)
        if alts:
            # all(...) = AND over the written positions (ground) AND forall over the untouched positions; any(...) dually.
            # A position written twice counts with its LAST value (outermost store first in `alts`).
            ground, done = [], []
            for k, v in alts:
                live = z3.And(0 <= k, k < ln, *[k != k2 for k2 in done])
                c2, b2 = body_for(v, z3.And(in_rng, i == k))
                ground.append((live, c2, b2))
                done.append(k)
            other = z3.And(in_rng, *[i != k for k in done])
            cnd, body = body_for(base_arr[i], other)
            if is_all:
                return mk_bool(z3.And(*([z3.Implies(z3.And(l, c), b) for l, c, b in ground] +
                                        [z3.ForAll([i], z3.Implies(z3.And(other, cnd), body))])))
            return mk_bool(z3.Or(*([z3.And(l, c, b) for l, c, b in ground] + [z3.Exists([i], z3.And(other, cnd, body))])))
        cnd, body = body_for(arr[_ix(i, off)], in_rng)
        conds = [cnd]
        rng = z3.And(0 <= i, i < ln, *conds)
        if is_all:
            return mk_bool(z3.ForAll([i], z3.Implies(rng, body)))
        return mk_bool(z3.Exists([i], z3.And(rng, body)))

    def bi_map(self, args, kwargs, st, spec):
        return PyVal("map", fn=args[0], parts=list(args[1:]))

    def map_to_list(self, m, st, spec):
        seqs = [self.seq_of(p, st, spec) for p in m.parts]
        ln = seqs[0][3]
        for s in seqs[1:]:
            ln = z3.If(s[3] < ln, s[3], ln)
        j = self.ctx.fresh("j", z3.IntSort())
        elems = [SV(s[0], s[1][_ix(j, s[2])]) for s in seqs]
        saved = st.bound
        st.bound = dict(saved)
        outer_q = st.qdepth
        st.qdepth += 1
        st.qids.add(j.get_id())
        st.qguards.append(z3.And(0 <= j, j < ln))
        try:
            r = self.apply(m.fn, elems, {}, st, spec)
        finally:
            st.bound = saved
            st.qdepth -= 1
            st.qids.discard(j.get_id())
            st.qguards.pop()
        if outer_q > 0:
            raise Unsupported("list(map(...)) inside a quantified specification")
        arr = self.defined_array("map", z3.ArraySort(z3.IntSort(), sort_of(r.ty)), lambda t: z3.substitute(r.t, (j, t)), st)
        return self.new_list(r.ty, arr, z3.simplify(ln), st)

    def comprehension_list(self, node, st, spec):
        if len(node.generators) != 1 or node.generators[0].ifs:
            raise Unsupported("list comprehension with filter / nested loops")
        gen = node.generators[0]
        it = self.ev(gen.iter, st, spec)
        if isinstance(it, PyVal) and it.kind == "range":
            e, arr, off, ln = INT, None, it.lo, z3.If(it.hi - it.lo >= 0, it.hi - it.lo, 0)
        else:
            e, arr, off, ln = self.seq_of(it, st, spec)
        j = self.ctx.fresh("j", z3.IntSort())
        elem = SV(INT, j + off) if arr is None else SV(e, arr[_ix(j, off)])
        saved = st.bound
        st.bound = dict(saved)
        st.qdepth += 1
        st.qids.add(j.get_id())
        st.qguards.append(z3.And(0 <= j, j < ln))
        try:
            self.bind_target(gen.target, elem, st, bound=True)
            r = self.ev(node.elt, st, spec)
        finally:
            st.bound = saved
            st.qdepth -= 1
            st.qids.discard(j.get_id())
            st.qguards.pop()
        if not is_sv(r) or r.ty.kind not in ("int", "real", "bool", "ref", "list"):
            raise Unsupported("comprehension element %r" % (r,))
        if st.qdepth > 0:
            # inside a quantifier the element expression may mention bound variables: the sequence must be a closed *term*
            # (a lambda), never a global definition
            a2 = z3.Lambda([j], r.t)
        else:
            a2 = self.defined_array("comp", z3.ArraySort(z3.IntSort(), sort_of(r.ty)), lambda t: z3.substitute(r.t, (j, t)), st)
        if spec:
            return mk_seq(r.ty, a2, z3.IntVal(0), z3.simplify(ln))
        return self.new_list(r.ty, a2, z3.simplify(ln), st)

    def bi_sum(self, args, kwargs, st, spec):
        v = args[0]
        if isinstance(v, PyVal):
            raise Unsupported("sum of %r" % v)
        e, arr, off, ln = self.seq_of(v, st, spec)
        if e.kind != "real":
            raise Unsupported("sum over non-real list")
        f = self.sum_fun()
        self.sum_axioms(st)
        return SV(REAL, f(arr, off, off + ln))

    def sum_fun(self):
        return z3.Function("seqsum", z3.ArraySort(z3.IntSort(), z3.RealSort()), z3.IntSort(), z3.IntSort(), z3.RealSort())

    def sum_axioms(self, st):
        """library model of sum(): seqsum(a, lo, hi) = a[lo] + ... + a[hi-1]; the facts used are the empty sum, the step and
        congruence (it depends only on the elements in [lo, hi)) -- assumed, listed in the evidence"""
        f = self.sum_fun()
        srt = z3.ArraySort(z3.IntSort(), z3.RealSort())
        a, b = z3.Const("sa", srt), z3.Const("sb", srt)
        lo, hi, lo2, i = z3.Ints("slo shi slo2 si")
        axs = [z3.ForAll([a, lo, hi], z3.Implies(hi <= lo, f(a, lo, hi) == 0), patterns=[f(a, lo, hi)]),
               z3.ForAll([a, lo, hi], z3.Implies(hi > lo, f(a, lo, hi) == f(a, lo, hi - 1) + a[hi - 1]), patterns=[f(a, lo, hi)]),
               z3.ForAll([a, b, lo, hi],
                         z3.Implies(z3.ForAll([i], z3.Implies(z3.And(lo <= i, i < hi), a[i] == b[i]), qid="sumcong_inner"),
                                    f(a, lo, hi) == f(b, lo, hi)),
                         patterns=[z3.MultiPattern(f(a, lo, hi), f(b, lo, hi))], qid="sumcong")]
        # lower bounds (induction on hi): a sum of terms >= c is >= c * (number of terms), for c = 0 and c = -1
        for c in (0, -1):
            axs.append(z3.ForAll([a, lo, hi],
                                 z3.Implies(z3.And(lo <= hi, z3.ForAll([i], z3.Implies(z3.And(lo <= i, i < hi), a[i] >= c), qid="sumlb_inner")),
                                            f(a, lo, hi) >= c * z3.ToReal(hi - lo)),
                                 patterns=[f(a, lo, hi)], qid="sumlb_%d" % -c))
        for ax in axs[2:]:
            if not any(ax.eq(p) for p in st.pc):
                st.assume(ax)
        self.ctx.models_used.add("sum(list) = seqsum: congruence axiom (depends only on the summed elements) and lower-bound axioms "
                                 "(terms >= 0 resp. >= -1); trusted, by induction on the length")

    # ---- sorting: the result is a permutation (ghost bijection pi / inverse sigma) ordered by the key
    def sorted_model(self, src, keyfn, st, reverse=False, cmp=None):
        e, arr, off, n = self.seq_of(src, st)
        ctx = self.ctx
        R = ctx.fresh("sorted", z3.ArraySort(z3.IntSort(), sort_of(e)))
        pi = ctx.fresh("perm", z3.ArraySort(z3.IntSort(), z3.IntSort()))
        sg = ctx.fresh("perminv", z3.ArraySort(z3.IntSort(), z3.IntSort()))
        i, j = ctx.fresh("i", z3.IntSort()), ctx.fresh("j", z3.IntSort())
        src_at = lambda t: arr[_ix(t, off)]
        st.assume(z3.ForAll([i], z3.Implies(z3.And(0 <= i, i < n),
                                            z3.And(0 <= pi[i], pi[i] < n, R[i] == src_at(pi[i]), sg[pi[i]] == i)),
                            patterns=[R[i], pi[i]]))
        st.assume(z3.ForAll([j], z3.Implies(z3.And(0 <= j, j < n),
                                            z3.And(0 <= sg[j], sg[j] < n, pi[sg[j]] == j, R[sg[j]] == src_at(j))),
                            patterns=[sg[j]] + ([src_at(j)] if pattern_ok(arr) and z3.is_int_value(off) and off.as_long() == 0 else [])))
        if e.kind in ("ref", "list"):
            st.assume(z3.ForAll([i], z3.Implies(z3.And(0 <= i, i < n), z3.And(R[i] >= 1, R[i] < st.alloc())), patterns=[R[i]]))
        saved = st.bound
        st.bound = dict(saved)
        st.qdepth += 1
        st.qids.update((i.get_id(), j.get_id()))
        try:
            if keyfn is not None:
                ki = self.apply(keyfn, [SV(e, R[i])], {}, st, True)
                kj = self.apply(keyfn, [SV(e, R[j])], {}, st, True)
                ty, x, y = self.num_pair(ki, kj)
                order = (x >= y) if reverse else (x <= y)
            elif cmp is not None:
                c = self.apply(cmp, [SV(e, R[i]), SV(e, R[j])], {}, st, True)
                order = (self.to_int(c) >= 0) if reverse else (self.to_int(c) <= 0)
            else:
                ty, x, y = self.num_pair(SV(e, R[i]), SV(e, R[j]))
                order = (x >= y) if reverse else (x <= y)
        finally:
            st.bound = saved
            st.qdepth -= 1
            st.qids.difference_update((i.get_id(), j.get_id()))
        st.assume(z3.ForAll([i, j], z3.Implies(z3.And(0 <= i, i <= j, j < n), order), patterns=[z3.MultiPattern(R[i], R[j])]))
        self.ctx.models_used.add("sorted/sort: result is a permutation of the input (ghost bijection) ordered by the key; stability not modelled")
        st.env["_perm"] = mk_seq(INT, pi, z3.IntVal(0), n)
        st.env["_perminv"] = mk_seq(INT, sg, z3.IntVal(0), n)
        return e, R, n

    def _sort_args(self, kwargs):
        keyfn = kwargs.get("key")
        cmp = None
        if isinstance(keyfn, PyVal) and keyfn.kind == "cmp_to_key":
            cmp, keyfn = keyfn.fn, None
        rev = kwargs.get("reverse")
        reverse = False
        if rev is not None:
            r = z3.simplify(rev.t)
            if not (z3.is_true(r) or z3.is_false(r)):
                raise Unsupported("symbolic reverse flag")
            reverse = z3.is_true(r)
        return keyfn, cmp, reverse

    def bi_sorted(self, args, kwargs, st, spec):
        keyfn, cmp, reverse = self._sort_args(kwargs)
        if cmp is not None:
            self.require_total_preorder(cmp, st)
        e, R, n = self.sorted_model(args[0], keyfn, st, reverse, cmp)
        return self.new_list(e, R, n, st)

    def lm_sort(self, lst, args, kwargs, st, spec):
        keyfn, cmp, reverse = self._sort_args(kwargs)
        if cmp is not None:
            self.require_total_preorder(cmp, st)
        e, R, n = self.sorted_model(lst, keyfn, st, reverse, cmp)
        self.list_set_content(lst, R, None, st)
        return mk_none()

    def bi_functools_cmp_to_key(self, args, kwargs, st, spec):
        return PyVal("cmp_to_key", fn=args[0])

    def require_total_preorder(self, cmp, st):
        """sorted(cmp_to_key(c)) orders its result only if c is a total preorder: the caller's contract must name the lemma"""
        name = getattr(cmp, "name", None)
        need = "total_preorder:%s" % name
        if need not in self.contract.options.get("proved_orders", []):
            raise Unsupported("sorting with comparator %s needs a proved total-preorder lemma (options.proved_orders)" % name)
        self.ctx.assumed.add("lemma:" + need)

    def _hof_target(self, f, st, what, expect):
        """call-site obligation: the callable handed to an external optimiser is the expected method (4.8)"""
        ok = isinstance(f, PyVal) and f.kind == "boundmethod" and f.name == expect[1] and is_sv(f.recv) and \
            f.recv.ty.kind == "ref" and self.subclass(f.recv.ty.arg, expect[0])
        self.ctx.oblige(st, "callsite", z3.BoolVal(bool(ok)),
                        text="%s receives %s.%s as its objective callable" % (what, expect[0], expect[1]))
        self.ctx.models_used.add("%s: external optimiser; calls the supplied callable some number of times and uses only its return value" % what)

    def bi_scipy_optimize_minimize(self, args, kwargs, st, spec):
        self._hof_target(args[0], st, "scipy.optimize.minimize", ("Evaluator", "evaluate_scalar"))
        return PyVal("const", value="<OptimizeResult>")

    def bi_dir(self, args, kwargs, st, spec):
        v = args[0]
        return PyVal("dir", of=v)

    def bi_random_random(self, args, kwargs, st, spec):
        r = self.ctx.fresh("rnd", z3.RealSort())
        st.assume(z3.And(r >= 0, r < 1))
        self.ctx.models_used.add("random.random() in [0,1)")
        return SV(REAL, r)
    bi_random = bi_random_random

    def bi_random_uniform(self, args, kwargs, st, spec):
        a, b = self.to_real(args[0]), self.to_real(args[1])
        r = self.ctx.fresh("unif", z3.RealSort())
        st.assume(z3.Or(z3.And(a <= r, r <= b), z3.And(b <= r, r <= a)))
        self.ctx.models_used.add("random.uniform(a,b) between a and b")
        return SV(REAL, r)
    bi_uniform = bi_random_uniform

    def bi_random_choice(self, args, kwargs, st, spec):
        v = args[0]
        e, arr, off, ln = self.seq_of(v, st, spec)
        if not spec:
            self.ctx.oblige(st, "safe:choice", ln > 0, text="choice from non-empty sequence")
        i = self.ctx.fresh("choice", z3.IntSort())
        st.assume(z3.And(0 <= i, i < ln))
        self.ctx.models_used.add("random.choice(L) = L[i] for some 0<=i<len(L)")
        st.env["_choice_index"] = mk_int(i)
        r = SV(e, arr[_ix(i, off)])
        if e.kind in ("ref", "list"):
            st.assume(z3.And(r.t >= 1, r.t < st.alloc()))
        return r
    bi_choice = bi_random_choice

    def concrete_int(self, t, st):
        """the unique integer value of t under the path condition, if there is one"""
        ts = z3.simplify(t)
        if z3.is_int_value(ts):
            return ts.as_long()
        s = z3.Solver()
        s.set("timeout", 2000)
        s.add(*[f for f in st.pc if not z3.is_quantifier(f)])
        if s.check() != z3.sat:
            return None
        v = s.model().eval(t, model_completion=True)
        if not z3.is_int_value(v):
            return None
        s.add(t != v)
        if s.check() == z3.unsat:
            return v.as_long()
        return None

    def bi_random_sample(self, args, kwargs, st, spec):
        v, k = args
        e, arr, off, ln = self.seq_of(v, st, spec)
        n = self.concrete_int(self.to_int(k), st)
        if n is None:
            raise Unsupported("sample size symbolic")
        if not spec:
            self.ctx.oblige(st, "safe:sample", ln >= n, text="sample size <= population")
        idx = [self.ctx.fresh("smp", z3.IntSort()) for _ in range(n)]
        for i in idx:
            st.assume(z3.And(0 <= i, i < ln))
        if n > 1:
            st.assume(z3.Distinct(*idx))
        self.ctx.models_used.add("random.sample(L,k): k elements at pairwise distinct positions")
        items = []
        for i in idx:
            r = SV(e, arr[_ix(i, off)])
            if e.kind in ("ref", "list"):
                st.assume(z3.And(r.t >= 1, r.t < st.alloc()))
            items.append(r)
        a2 = self.ctx.fresh("sample", z3.ArraySort(z3.IntSort(), sort_of(e)))
        for j, it in enumerate(items):
            a2 = z3.Store(a2, j, it.t)
        st.env["_sample_index"] = mk_tuple([mk_int(i) for i in idx])
        return self.new_list(e, a2, z3.IntVal(n), st)
    bi_sample = bi_random_sample

    # ---- elementary functions (A5): uninterpreted with the elementary facts of DESIGN.md 4.5 --------------------------
    def elem_fun(self, name):
        return z3.Function(name + "_f", z3.RealSort(), z3.RealSort())

    def pi_const(self, st):
        pi = z3.Real("pi_c")
        ax = z3.And(pi > z3.RealVal("3.14159"), pi < z3.RealVal("3.1416"))
        if not any(ax.eq(p) for p in st.pc):
            st.pc.append(ax)
        self.ctx.models_used.add("math.pi: a real constant with 3.14159 < pi < 3.1416")
        return pi

    def elem_axioms(self, st):
        sin, cos = self.elem_fun("sin"), self.elem_fun("cos")
        t = z3.Real("el_t")
        pi = self.pi_const(st)
        axs = [z3.ForAll([t], sin(t) * sin(t) + cos(t) * cos(t) == 1, patterns=[sin(t)], qid="el_pyth_s"),
               z3.ForAll([t], sin(t) * sin(t) + cos(t) * cos(t) == 1, patterns=[cos(t)], qid="el_pyth_c"),
               z3.ForAll([t], z3.And(sin(t) >= -1, sin(t) <= 1), patterns=[sin(t)], qid="el_rng_s"),
               z3.ForAll([t], z3.And(cos(t) >= -1, cos(t) <= 1), patterns=[cos(t)], qid="el_rng_c"),
               z3.ForAll([t], z3.Implies(z3.And(t >= 0, t <= pi / 2), sin(t) >= 0), patterns=[sin(t)], qid="el_pos_s"),
               z3.ForAll([t], z3.Implies(z3.And(t >= 0, t <= pi / 2), cos(t) >= 0), patterns=[cos(t)], qid="el_pos_c"),
               sin(0) == 0, cos(0) == 1, cos(pi) == -1, sin(pi) == 0]
        for ax in axs:
            if not any(ax.eq(p) for p in st.pc):
                st.pc.append(ax)
        self.ctx.models_used.add("sin/cos: uninterpreted with sin^2+cos^2=1, |.|<=1, >=0 on [0,pi/2], sin 0 = 0, cos 0 = 1 (A5)")

    def bi_math_cos(self, args, kwargs, st, spec):
        self.elem_axioms(st)
        return SV(REAL, self.elem_fun("cos")(self.to_real(args[0])))
    bi_np_cos = bi_math_cos

    def bi_math_sin(self, args, kwargs, st, spec):
        self.elem_axioms(st)
        return SV(REAL, self.elem_fun("sin")(self.to_real(args[0])))
    bi_np_sin = bi_math_sin

    def bi_math_sqrt(self, args, kwargs, st, spec):
        f = self.elem_fun("sqrt")
        t = z3.Real("el_t")
        axs = [z3.ForAll([t], z3.Implies(t >= 0, z3.And(f(t) >= 0, f(t) * f(t) == t)), patterns=[f(t)], qid="el_sqrt")]
        for ax in axs:
            if not any(ax.eq(p) for p in st.pc):
                st.pc.append(ax)
        self.ctx.models_used.add("sqrt: uninterpreted with sqrt(t) >= 0 and sqrt(t)^2 = t for t >= 0 (A5)")
        return SV(REAL, f(self.to_real(args[0])))
    bi_np_sqrt = bi_math_sqrt

    def bi_math_exp(self, args, kwargs, st, spec):
        f = self.elem_fun("exp")
        t = z3.Real("el_t")
        u = z3.Real("el_u")
        e_c = z3.Real("e_c")
        axs = [z3.ForAll([t], f(t) > 0, patterns=[f(t)], qid="el_exp"), f(0) == 1, f(1) == e_c,
               z3.And(e_c > z3.RealVal("2.71828"), e_c < z3.RealVal("2.71829")),
               z3.ForAll([t, u], z3.Implies(t <= u, f(t) <= f(u)), patterns=[z3.MultiPattern(f(t), f(u))], qid="el_exp_mono")]
        for ax in axs:
            if not any(ax.eq(p) for p in st.pc):
                st.pc.append(ax)
        self.ctx.models_used.add("exp: uninterpreted with exp > 0, exp 0 = 1, exp 1 = e, monotone; 2.71828 < e < 2.71829 (A5)")
        return SV(REAL, f(self.to_real(args[0])))
    bi_np_exp = bi_math_exp
    bi_exp = bi_math_exp

    def spec_cos(self, node, st):
        return self.bi_math_cos([self.ev(node.args[0], st, True)], {}, st, True)

    def spec_sin(self, node, st):
        return self.bi_math_sin([self.ev(node.args[0], st, True)], {}, st, True)

    def spec_sqrt(self, node, st):
        return self.bi_math_sqrt([self.ev(node.args[0], st, True)], {}, st, True)

    def bi_divmod(self, args, kwargs, st, spec):
        a, b = args
        if not (is_sv(a) and is_sv(b) and a.ty.kind in ("int", "bool") and b.ty.kind in ("int", "bool")):
            raise Unsupported("divmod of non-integers")
        x, y = self.to_int(a), self.to_int(b)
        if not spec:
            self.ctx.oblige(st, "safe:div", y != 0, text="divmod by zero")
        return mk_tuple([SV(INT, self.py_floordiv(x, y)), SV(INT, self.py_mod(x, y))])

    def bi_math_pow(self, args, kwargs, st, spec):
        return self.power(SV(REAL, self.to_real(args[0])), args[1], st, spec)
    bi_pow = bi_math_pow

    def bi_deepcopy(self, args, kwargs, st, spec):
        v = args[0]
        if v.ty.kind == "ref":
            con = self.reg.function_contract("lib:deepcopy[%s]" % v.ty.arg)
            if con is not None:
                return self.apply_contract(con, [v], {}, st, "deepcopy")
        raise Unsupported("deepcopy of %r" % (v.ty,))
    bi_copy_deepcopy = bi_deepcopy

    def bi_hash(self, args, kwargs, st, spec):
        v = args[0]
        if v.ty.kind == "seq" and v.ty.arg.kind in ("real", "int"):
            f = z3.Function("hash_seq", z3.ArraySort(z3.IntSort(), sort_of(v.ty.arg)), z3.IntSort(), z3.IntSort(), z3.IntSort())
            self.ctx.models_used.add("hash(tuple): uninterpreted function of the value sequence (equal elements => equal hash)")
            srt = z3.ArraySort(z3.IntSort(), sort_of(v.ty.arg))
            a1, a2 = z3.Const("ha1", srt), z3.Const("ha2", srt)
            o1, o2, n, i = z3.Ints("ho1 ho2 hn hi")
            ax = z3.ForAll([a1, a2, o1, o2, n],
                           z3.Implies(z3.ForAll([i], z3.Implies(z3.And(0 <= i, i < n), a1[i + o1] == a2[i + o2])),
                                      f(a1, o1, n) == f(a2, o2, n)),
                           patterns=[z3.MultiPattern(f(a1, o1, n), f(a2, o2, n))])
            if not any(ax.eq(p) for p in st.pc):
                st.assume(ax)
            return SV(INT, f(v.t, v.aux[0], v.aux[1]))
        raise Unsupported("hash of %r" % (v.ty,))

    # ------------------------------------------------------------------ methods
    def call_method(self, bm, args, kwargs, st, spec, node):
        recv, name = bm.recv, bm.name
        if isinstance(recv, PyVal):
            raise Unsupported("method %s of %r" % (name, recv))
        k = recv.ty.kind
        if k == "list":
            m = getattr(self, "lm_" + name, None)
            if m is None:
                raise Unsupported("list method %s" % name)
            return m(recv, args, kwargs, st, spec)
        if k == "ref":
            cls = bm.cls
            if cls is not None:   # super().m(...)
                con = None
                for c in self.reg.class_chain(cls)[1:]:
                    con = self.reg.method_contract(c, name)
                    if con is not None:
                        break
            else:
                # an abstract (external) method may have one contract per arity: "<Class>.<method>/<number of arguments>"
                con = self.reg.method_contract(recv.ty.arg, "%s/%d" % (name, len(args) + len(kwargs))) or \
                    self.reg.method_contract(recv.ty.arg, name)
            if con is None:
                raise Unsupported("method %s.%s has no contract" % (recv.ty.arg, name))
            if con.params is None and self.frontend.is_staticmethod(self.frontend.function_node(con)):
                return self.apply_contract(con, args, kwargs, st, "%s.%s" % (recv.ty.arg, name), spec=spec)
            return self.apply_contract(con, [recv] + args, kwargs, st, "%s.%s" % (recv.ty.arg, name), spec=spec)
        if k == "real" and name == "any":
            raise Unsupported("float has no attribute 'any'")
        raise Unsupported("method %s of %r" % (name, recv.ty))

    def lm_append(self, lst, args, kwargs, st, spec):
        v = args[0]
        if not is_sv(v):
            raise Unsupported("append of %r" % (v,))
        ety = lst.ty.arg
        if ety.kind == "any":
            raise Unsupported("append to a list of unknown element type (declare it)")
        if v.ty.kind == "none" and ety.kind in ("real", "int"):
            # appending None to a list of numbers (Evaluator.evaluate_serial does this to the *old* costs list):
            # the new element is an arbitrary value of the element sort (sound over-approximation; it is never read as a number)
            self.ctx.models_used.add("list.append(None) on a numeric list: the new element is unconstrained")
            v = self.fresh_value(ety, "none_elem", st)
        v = self.coerce(v, ety, st)
        ln = self.list_len(lst, st)
        arr = rd(self.content_arr(ety, st), lst.t)
        self.list_set_content(lst, z3.Store(arr, ln, v.t), ln + 1, st)
        return mk_none()

    def lm_copy(self, lst, args, kwargs, st, spec):
        return self.list_from_iter(lst, st)

    def lm_extend(self, lst, args, kwargs, st, spec):
        other = args[0]
        e, arr1, off1, l1 = self.seq_of(lst, st)
        e2, arr2, off2, l2 = self.seq_of(other, st)
        j = z3.Int("j!ext")
        arr = z3.Lambda([j], z3.If(j < l1, arr1[j], arr2[j - l1 + off2]))
        self.list_set_content(lst, arr, l1 + l2, st)
        return mk_none()

    def lm_reverse(self, lst, args, kwargs, st, spec):
        e, arr1, off1, l1 = self.seq_of(lst, st)
        arr = self.defined_array("rev", arr1.sort(), lambda j: arr1[l1 - 1 - j], st)
        k = self.ctx.fresh("k", z3.IntSort())
        if pattern_ok(arr1):
            st.assume(z3.ForAll([k], arr1[k] == arr[l1 - 1 - k], patterns=[arr1[k]]))
        self.list_set_content(lst, arr, None, st)
        return mk_none()

    def lm_pop(self, lst, args, kwargs, st, spec):
        if args:
            raise Unsupported("pop(i)")
        ln = self.list_len(lst, st)
        if not spec:
            self.ctx.oblige(st, "safe:pop", ln > 0, text="pop from non-empty list")
        v = self.list_elem(lst, ln - 1, st)
        st.hset(self.len_key(lst.ty.arg), z3.Store(self.len_arr(st, lst.ty.arg), lst.t, ln - 1))
        return v

    def elem_match(self, a, b, st):
        """python's `a is b or a == b` used by list.remove / index / in"""
        if a.ty.kind == "ref" and b.ty.kind == "ref":
            con = self.reg.method_contract(a.ty.arg, "__eq__")
            if con is not None and con.pure:
                r = self.apply_contract(con, [a, b], {}, st, "__eq__", spec=True)
                return z3.Or(a.t == b.t, self.truthy(r, st))
            return a.t == b.t
        return self.equal(a, b, st, True)

    def lm_remove(self, lst, args, kwargs, st, spec):
        x = args[0]
        e, arr, off, n = self.seq_of(lst, st)
        ch = self.ctx.choose(2)
        j = self.ctx.fresh("j", z3.IntSort())
        if ch == 0:
            i = self.ctx.fresh("rm", z3.IntSort())
            st.assume(z3.And(0 <= i, i < n, self.elem_match(SV(e, arr[i]), x, st)))
            saved = st.bound
            st.bound = dict(saved)
            st.bound["_j"] = mk_int(j)
            st.qdepth += 1
            st.qids.add(j.get_id())
            try:
                m = self.elem_match(SV(e, arr[j]), x, st)
            finally:
                st.bound = saved
                st.qdepth -= 1
                st.qids.discard(j.get_id())
            st.assume(z3.ForAll([j], z3.Implies(z3.And(0 <= j, j < i), z3.Not(m)), patterns=[arr[j]] if pattern_ok(arr) else []))
            st.env["_removed_index"] = mk_int(i)
            self.list_delete(lst, i, st)
            self.ctx.models_used.add("list.remove(x): deletes the first element that is x or == x, ValueError if none")
            return mk_none()
        saved = st.bound
        st.bound = dict(saved)
        st.bound["_j"] = mk_int(j)
        st.qdepth += 1
        st.qids.add(j.get_id())
        try:
            m = self.elem_match(SV(e, arr[j]), x, st)
        finally:
            st.bound = saved
            st.qdepth -= 1
            st.qids.discard(j.get_id())
        st.assume(z3.ForAll([j], z3.Implies(z3.And(0 <= j, j < n), z3.Not(m)), patterns=[arr[j]] if pattern_ok(arr) else []))
        raise RaiseSig("ValueError", self.ctx.cur_line)

    def lm_insert(self, lst, args, kwargs, st, spec):
        pos, v = args
        e, arr1, off1, l1 = self.seq_of(lst, st)
        p = self.to_int(pos)
        # python: negative positions count from the end, clamped
        p = z3.If(p < 0, z3.If(l1 + p < 0, 0, l1 + p), z3.If(p > l1, l1, p))
        v = self.coerce(v, e, st)
        arr = self.defined_array("ins", arr1.sort(), lambda j: z3.If(j < p, arr1[j], z3.If(j == p, v.t, arr1[j - 1])), st, also=[arr1],
                                 rng=(z3.IntVal(0), l1 + 1))
        self.list_set_content(lst, arr, l1 + 1, st)
        return mk_none()

    def list_delete(self, lst, idx, st):
        e, arr1, off1, l1 = self.seq_of(lst, st)
        arr = self.defined_array("del", arr1.sort(), lambda j: z3.If(j < idx, arr1[j], arr1[j + 1]), st, also=[arr1],
                                 rng=(z3.IntVal(0), l1))
        self.list_set_content(lst, arr, l1 - 1, st)

    def defined_array(self, base, sort, fn, st, also=(), rng=None):
        """fresh array constant with a quantified definition (E-matching handles this better than lambda terms);
        the definition is triggered by reads of the new array and, when `also` is given, of the source arrays.  With source
        triggers the definition is restricted to the index range rng = (lo, hi): shifted definitions (delete / insert) would
        otherwise feed a matching loop (a[j] -> a[j-1] -> ...); values outside the list are never meaningful anyway."""
        if st.qdepth > 0:
            raise Unsupported("array definition inside a quantified specification (would capture bound variables)")
        a = self.ctx.fresh(base, sort)
        j = self.ctx.fresh("j", z3.IntSort())
        body = a[j] == fn(j)
        extra = [b[j] for b in also if pattern_ok(b)]
        if rng is not None:
            body = z3.Implies(z3.And(rng[0] <= j, j < rng[1]), body)
        else:
            extra = []
        st.assume(z3.ForAll([j], body, patterns=[a[j]] + extra, qid="def_%s" % a))
        return a

    # ------------------------------------------------------------------ spec builtins
    def _quant(self, node, st, is_forall):
        lam = node.args[0]
        if not isinstance(lam, ast.Lambda):
            raise Unsupported("quantifier needs a lambda")
        names = [a.arg for a in lam.args.args]
        rest = node.args[1:]
        vars_ = []
        ranges = []
        saved = st.bound
        st.bound = dict(saved)
        st.qdepth += 1
        try:
            if len(names) == 1 and len(rest) == 2:
                rest = [ast.Tuple(elts=rest, ctx=ast.Load())]
            for i, n in enumerate(names):
                v = self.ctx.fresh(n, z3.IntSort())
                vars_.append(v)
                st.qids.add(v.get_id())
                st.bound[n] = mk_int(v)
                if i < len(rest):
                    r = rest[i]
                    if isinstance(r, ast.Tuple) and len(r.elts) == 2:
                        lo = self.to_int(self.ev(r.elts[0], st, True))
                        hi = self.to_int(self.ev(r.elts[1], st, True))
                        ranges.append(z3.And(lo <= v, v < hi))
                    elif isinstance(r, ast.Constant) and isinstance(r.value, str):
                        ty = parse_ty(r.value)
                        st.bound[n] = SV(ty, v)
                        if r.value.startswith("valid:"):
                            pass
                    else:
                        raise Unsupported("quantifier range")
            body = self.truthy(self.ev(lam.body, st, True), st)
            # optional explicit trigger:  forall(lambda i, j: ..., ranges..., trig=lambda i, j: (t1, t2))
            explicit = None
            for kw in node.keywords:
                if kw.arg == "trig":
                    tv = self.ev(kw.value.body if isinstance(kw.value, ast.Lambda) else kw.value, st, True)
                    terms = [x.t for x in (tv.t if tv.ty.kind == "tuple" else [tv])]
                    if all(pattern_ok(t) for t in terms):
                        explicit = [z3.MultiPattern(*terms)] if len(terms) > 1 else terms
        finally:
            st.bound = saved
            st.qdepth -= 1
            for v in vars_:
                st.qids.discard(v.get_id())
        rng = z3.And(*ranges) if ranges else z3.BoolVal(True)
        if explicit:
            q = z3.ForAll if is_forall else z3.Exists
            return mk_bool(q(vars_, z3.Implies(rng, body) if is_forall else z3.And(rng, body), patterns=explicit,
                             qid="qx_%s" % "_".join(str(v) for v in vars_)))
        outer = set()
        if st.qdepth > 0:
            for v in saved.values():
                if is_sv(v) and z3.is_expr(v.t) and z3.is_const(v.t) and v.t.decl().kind() == z3.Z3_OP_UNINTERPRETED:
                    outer.add(v.t.get_id())
        if is_forall:
            return mk_bool(self.mk_forall(vars_, z3.Implies(rng, body), outer))
        return mk_bool(self.mk_exists(vars_, z3.And(rng, body), outer))

    def mk_forall(self, vars_, body, outer_ids=None):
        pats = choose_patterns(vars_, body, outer_ids)
        qid = "q_%s" % "_".join(str(v) for v in vars_)
        if pats:
            return z3.ForAll(vars_, body, patterns=pats, qid=qid)
        return z3.ForAll(vars_, body, qid=qid)

    def mk_exists(self, vars_, body, outer_ids=None):
        # an existential in a hypothesis is skolemised; in a goal it becomes a universal after negation
        pats = choose_patterns(vars_, body, outer_ids)
        if pats:
            return z3.Exists(vars_, body, patterns=pats)
        return z3.Exists(vars_, body)

    def spec_forall(self, node, st):
        return self._quant(node, st, True)

    def spec_exists(self, node, st):
        return self._quant(node, st, False)

    def spec_implies(self, node, st):
        a = self.truthy(self.ev(node.args[0], st, True), st)
        b = self.truthy(self.ev(node.args[1], st, True), st)
        return mk_bool(z3.Implies(a, b))

    def spec_iff(self, node, st):
        a = self.truthy(self.ev(node.args[0], st, True), st)
        b = self.truthy(self.ev(node.args[1], st, True), st)
        return mk_bool(a == b)

    def spec_ite(self, node, st):
        c = self.truthy(self.ev(node.args[0], st, True), st)
        return self.ite(c, self.ev(node.args[1], st, True), self.ev(node.args[2], st, True), st)

    def _in_snapshot(self, node, st, snap, keep_new=False):
        if snap is None:
            raise Unsupported("no snapshot for old()/before()")
        tmp = State(self.ctx)
        tmp.env = dict(snap.env)
        if keep_new:
            # before(e): a local that did not exist when the loop started (its own loop variable) denotes its current value
            for k, v in st.env.items():
                tmp.env.setdefault(k, v)
        tmp.heap = dict(snap.heap)
        tmp.bound = dict(st.bound)
        tmp.pc = st.pc
        tmp.entry = st.entry
        tmp.loops = st.loops
        tmp.call_pre = st.call_pre
        tmp.qdepth = st.qdepth
        tmp.qids = st.qids
        tmp.qguards = st.qguards
        return self.ev(node, tmp, True)

    def spec_old(self, node, st):
        # names that did not exist at entry (ghost results, `result`) keep their current value inside old(...)
        return self._in_snapshot(node.args[0], st, st.call_pre if st.call_pre is not None else st.entry, keep_new=True)

    def spec_before(self, node, st):
        """value of an expression just before the innermost enclosing loop started (or loop n: before(e, n))"""
        if len(node.args) > 1:
            n = node.args[1].value
        else:
            n = st.cur_loop[-1]
        return self._in_snapshot(node.args[0], st, st.loops.get(n), keep_new=True)

    def spec_fresh(self, node, st):
        v = self.ev(node.args[0], st, True)
        base = st.call_pre if st.call_pre is not None else st.entry
        a0 = base.heap.get("$alloc", self.ctx.initial_array("$alloc"))
        return mk_bool(z3.And(v.t >= a0, v.t < st.alloc()))

    def spec_valid(self, node, st):
        v = self.ev(node.args[0], st, True)
        if v.ty.kind == "opt":
            return mk_bool(z3.Implies(z3.Not(v.aux), z3.And(v.t >= 1, v.t < st.alloc())))
        return mk_bool(z3.And(v.t >= 1, v.t < st.alloc()))

    def spec_allocated_before(self, node, st):
        v = self.ev(node.args[0], st, True)
        base = st.call_pre if st.call_pre is not None else st.entry
        a0 = base.heap.get("$alloc", self.ctx.initial_array("$alloc"))
        return mk_bool(z3.And(v.t >= 1, v.t < a0))

    def spec_is_none(self, node, st):
        v = self.ev(node.args[0], st, True)
        return mk_bool(self.identical(v, mk_none(), st))

    def spec_seq_eq(self, node, st):
        a = self.ev(node.args[0], st, True)
        b = self.ev(node.args[1], st, True)
        return mk_bool(self.equal(a, b, st, True))

    def spec_same_list(self, node, st):
        """same_list(a, b): the two list objects have identical content arrays (extensionally, all indices)"""
        a = self.ev(node.args[0], st, True)
        b = self.ev(node.args[1], st, True)
        e1, arr1, off1, l1 = self.seq_of(a, st, True)
        e2, arr2, off2, l2 = self.seq_of(b, st, True)
        return mk_bool(z3.And(l1 == l2, arr1 == arr2))

    def _list_unchanged(self, node, st, snap):
        if snap is None:
            raise Unsupported("no snapshot")
        lst = self.ev(node.args[0], st, True)
        if lst.ty.kind != "list":
            raise Unsupported("unchanged() of non-list")
        ety = lst.ty.arg
        ck, lk = self.content_key(ety), self.len_key(ety)
        cur_c, cur_l = st.harr(ck, self.heap_sort(ck)), st.harr(lk, self.heap_sort(lk))
        old_c = snap.heap.get(ck, self.ctx.initial_array(ck, self.heap_sort(ck)))
        old_l = snap.heap.get(lk, self.ctx.initial_array(lk, self.heap_sort(lk)))
        i = self.ctx.fresh("i", z3.IntSort())
        return mk_bool(z3.And(cur_l[lst.t] == old_l[lst.t],
                              z3.ForAll([i], z3.Implies(z3.And(0 <= i, i < cur_l[lst.t]), cur_c[lst.t][i] == old_c[lst.t][i]),
                                        qid="unchanged_%s" % i)))

    def spec_unchanged(self, node, st):
        """unchanged(l): list object l has the length and elements it had at entry (at the call, inside callee posts)"""
        return self._list_unchanged(node, st, st.call_pre if st.call_pre is not None else st.entry)

    def spec_stable(self, node, st):
        """stable(l): list object l has the length and elements it had just before the enclosing loop (or loop n)"""
        n = node.args[1].value if len(node.args) > 1 else st.cur_loop[-1]
        return self._list_unchanged(node, st, st.loops.get(n))

    def spec_heap_same(self, node, st):
        """heap_same('Class.field') : the whole heap array is unchanged since entry (or since the call for callee posts)"""
        key = node.args[0].value
        base = st.call_pre if st.call_pre is not None else st.entry
        if len(node.args) > 1:
            base = st.loops.get(node.args[1].value)
        cur = st.heap.get(key)
        old = base.heap.get(key)
        if cur is None and old is None:
            return mk_bool(True)
        cur = cur if cur is not None else self.ctx.initial_array(key)
        old = old if old is not None else self.ctx.initial_array(key)
        if cur is old or cur.eq(old):
            return mk_bool(True)
        return mk_bool(cur == old)

    def spec_unfold(self, node, st):
        """unfold(f(args)): one instance of f's defining equation"""
        call = node.args[0]
        fd = self.reg.funs[call.func.id]
        args = [self.ev(a, st, True) for a in call.args]
        lhs = self.apply_fun(fd, args, st)
        saved = st.bound
        st.bound = dict(saved)
        st.bound.update({n: a for (n, _), a in zip(fd.params, args)})
        try:
            rhs = self.spec_text(fd.definition, st)
        finally:
            st.bound = saved
        return mk_bool(self.equal(lhs, rhs, st, True))

    def spec_seqsum(self, node, st):
        v = self.ev(node.args[0], st, True)
        e, arr, off, ln = self.seq_of(v, st, True)
        lo = self.to_int(self.ev(node.args[1], st, True)) if len(node.args) > 1 else z3.IntVal(0)
        hi = self.to_int(self.ev(node.args[2], st, True)) if len(node.args) > 2 else ln
        self.sum_axioms(st)
        return SV(REAL, self.sum_fun()(arr, z3.simplify(off + lo), z3.simplify(off + lo + (hi - lo))))

    def spec_fdiv(self, node, st):
        a = self.to_real(self.ev(node.args[0], st, True))
        b = self.to_real(self.ev(node.args[1], st, True))
        return SV(REAL, self.fdiv_fun()(a, b))

    def spec_owner(self, node, st):
        """owner(r): ghost ownership map (which object a list / dict currently belongs to); updated by ghost `set_owner`"""
        v = self.ev(node.args[0], st, True)
        arr = st.harr("$owner", z3.ArraySort(z3.IntSort(), z3.IntSort()))
        return SV(Ty("ref", "object"), arr[v.t])

    def spec_empty_int_seq(self, node, st):
        return mk_seq(INT, z3.K(z3.IntSort(), z3.IntVal(0)), z3.IntVal(0), z3.IntVal(0))

    def spec_empty_ref_seq(self, node, st):
        cls = node.args[0].value
        return mk_seq(Ref(cls), z3.K(z3.IntSort(), z3.IntVal(0)), z3.IntVal(0), z3.IntVal(0))

    def spec_seq_append(self, node, st):
        """seq_append(s, v): the value sequence s extended by v (ghost sequences)"""
        s_ = self.ev(node.args[0], st, True)
        v = self.ev(node.args[1], st, True)
        e, arr, off, ln = self.seq_of(s_, st, True)
        if not (z3.is_int_value(off) and off.as_long() == 0):
            raise Unsupported("seq_append on a slice")
        return mk_seq(e, z3.Store(arr, ln, self.coerce(v, e, st).t), z3.IntVal(0), z3.simplify(ln + 1))

    def spec_is_inf(self, node, st):
        v = self.coerce(self.ev(node.args[0], st, True), EXT, st)
        return mk_bool(v.aux != 0)

    def spec_fin(self, node, st):
        v = self.coerce(self.ev(node.args[0], st, True), EXT, st)
        return SV(REAL, v.t)

    def spec_round_dec(self, node, st):
        a = self.to_real(self.ev(node.args[0], st, True))
        n = self.to_int(self.ev(node.args[1], st, True))
        f = z3.Function("round_dec", z3.RealSort(), z3.IntSort(), z3.RealSort())
        return SV(REAL, f(a, n))

    def spec_real(self, node, st):
        return SV(REAL, self.to_real(self.ev(node.args[0], st, True)))

    def expand_macro(self, mac, args, st):
        if len(args) != len(mac.params):
            raise Unsupported("macro %s arity" % mac.name)
        saved_b, saved_e = st.bound, st.env
        st.bound = dict(saved_b)
        st.bound.update(dict(zip(mac.params, args)))
        try:
            return self.ev(mac.node, st, True)
        finally:
            st.bound = saved_b

    def apply_fun(self, fd, args, st):
        if fd.by_value:
            dom, zargs = [], []
            for (n, t), a in zip(fd.params, args):
                if t.kind == "list":
                    e, arr, off, ln = self.seq_of(self.coerce(a, t, st) if a.ty.kind == "list" else a, st, True)
                    if not (z3.is_int_value(off) and off.as_long() == 0):
                        raise Unsupported("by-value spec function on a slice")
                    dom += [arr.sort(), z3.IntSort()]
                    zargs += [arr, ln]
                else:
                    dom.append(sort_of(t))
                    zargs.append(self.coerce(a, t, st).t)
            f = z3.Function(fd.name, *(dom + [sort_of(fd.ret)]))
            if fd.prefix_recursive and len(fd.params) == 2 and fd.params[0][1].kind == "list" and fd.params[1][1].kind == "int":
                a = z3.Const("pr_a", dom[0])
                l, l2, n, k = z3.Ints("pr_l pr_l2 pr_n pr_k")
                v = z3.Const("pr_v", dom[0].range())
                axs = [z3.ForAll([a, l, l2, n], f(a, l, n) == f(a, l2, n), patterns=[z3.MultiPattern(f(a, l, n), f(a, l2, n))],
                                 qid="prefix_len_" + fd.name),
                       z3.ForAll([a, k, v, l, n], z3.Implies(n <= k, f(z3.Store(a, k, v), l, n) == f(a, l, n)),
                                 patterns=[f(z3.Store(a, k, v), l, n)], qid="prefix_store_" + fd.name)]
                for ax in axs:
                    if not any(ax.eq(p) for p in st.pc):
                        st.pc.append(ax)
                self.ctx.models_used.add("prefix-recursive spec function %s: frame axioms (independent of the length argument, "
                                         "unchanged by a store at index >= n) -- by induction on n, trusted" % fd.name)
            return SV(fd.ret, f(*zargs))
        harrs = []
        for key in fd.heap:
            harrs.append(st.harr(key, self.heap_sort(key)))
        dom = [h.sort() for h in harrs] + [sort_of(t) for _, t in fd.params]
        f = z3.Function(fd.name, *(dom + [sort_of(fd.ret)]))
        zargs = list(harrs)
        for (n, t), a in zip(fd.params, args):
            zargs.append(self.coerce(a, t, st).t)
        return SV(fd.ret, f(*zargs))

    def heap_sort(self, key):
        if key.startswith("$len"):
            return z3.ArraySort(z3.IntSort(), z3.IntSort())
        if key.startswith("$list."):
            s = {"Real": z3.RealSort(), "Int": z3.IntSort(), "Bool": z3.BoolSort(), "Ref": z3.IntSort()}[key[6:]]
            return z3.ArraySort(z3.IntSort(), z3.ArraySort(z3.IntSort(), s))
        if key.endswith("?"):
            return z3.ArraySort(z3.IntSort(), z3.BoolSort())
        if key.endswith("!s"):
            return z3.ArraySort(z3.IntSort(), z3.IntSort())
        if key == "$owner":
            return z3.ArraySort(z3.IntSort(), z3.IntSort())
        if key.startswith("$cv."):
            _, c, f = key.split(".")
            return sort_of(self.reg.class_var(c, f)[1])
        if key.endswith(".$dyn"):
            return z3.ArraySort(z3.IntSort(), z3.ArraySort(z3.IntSort(), z3.RealSort()))
        c, f = key.split(".")
        if f.startswith("has_"):
            return z3.ArraySort(z3.IntSort(), z3.BoolSort())
        owner, ty = self.reg.field(c, f)
        if ty.kind == "ext":
            return z3.ArraySort(z3.IntSort(), z3.RealSort())
        if ty.kind == "opt":
            return z3.ArraySort(z3.IntSort(), sort_of(ty.arg))
        return z3.ArraySort(z3.IntSort(), sort_of(ty))

    # ------------------------------------------------------------------ contracts at call sites
    def bind_params(self, con, args, kwargs, static=False, st=None):
        names = self.contract_params(con)
        bound = {}
        args = list(args)
        if len(args) > len(names):
            raise Unsupported("too many arguments for %s" % con.target)
        for n, a in zip(names, args):
            bound[n] = a
        for k, v in kwargs.items():
            if k not in names:
                raise Unsupported("unknown keyword %s for %s" % (k, con.target))
            bound[k] = v
        defaults = self.contract_defaults(con)
        for n in names:
            if n not in bound:
                if n in defaults:
                    bound[n] = defaults[n]
                else:
                    raise Unsupported("missing argument %s for %s" % (n, con.target))
        for n, v in list(bound.items()):
            if n in con.types and is_sv(v):
                bound[n] = self.coerce(v, con.types[n], st)
        return bound

    def contract_params(self, con):
        if con.params is not None:
            return list(con.params)
        fn = self.frontend.function_node(con)
        return [a.arg for a in fn.args.args]

    def contract_defaults(self, con):
        if con.params is not None:
            out = {}
            for k, v in con.options.get("defaults", {}).items():
                out[k] = self.ev_Constant(ast.Constant(v), None, False)
            return out
        fn = self.frontend.function_node(con)
        names = [a.arg for a in fn.args.args]
        out = {}
        ds = fn.args.defaults
        for n, d in zip(names[len(names) - len(ds):], ds):
            if isinstance(d, ast.Constant):
                out[n] = self.ev_Constant(d, None, False)
        return out

    def apply_contract(self, con, args, kwargs, st, label, spec=False, static=False):
        ctx = self.ctx
        bound = self.bind_params(con, args, kwargs, static, None if spec else st)
        ctx.assumed.add(con.target)
        line = ctx.cur_line
        if spec and not con.pure:
            raise Unsupported("impure call %s inside a specification" % con.target)
        saved_env, saved_bound, saved_pre = st.env, st.bound, st.call_pre
        callee_env = dict(bound)
        # --- preconditions, evaluated in the caller's current heap with callee parameter names
        st.env = callee_env
        st.bound = dict(saved_bound)
        st.call_pre = None
        try:
            if not spec:
                for i, r in enumerate(con.requires):
                    g = self.truthy(self.spec_text(r, st), st)
                    st.env = saved_env
                    ctx.oblige(st, "pre:%s" % con.qualname, g, line=line, text=r, tag="#%d" % i)
                    st.env = callee_env
            pre = Snapshot(callee_env, st.heap)
            # --- frame
            if not con.pure:
                self.havoc_modifies(con, st, pre)
            # --- result
            result = None
            if con.returns is not None:
                st.call_pre = pre
                result = self.spec_text(con.returns, st)
            else:
                rty = con.types.get("result")
                if rty is not None:
                    result = self.fresh_value(rty, "ret_" + con.qualname.split(".")[-1], st)
            outcome = 0
            if con.raises and not spec:
                outcome = ctx.choose(1 + len(con.raises))
            st.call_pre = pre
            ghost_out = {}
            if outcome == 0:
                env2 = dict(callee_env)
                if result is not None:
                    env2["result"] = result
                for gname, gty in con.ghost_results.items():
                    # ghost outputs of the callee (witnesses its postcondition talks about) are existential for the caller
                    ghost_out[gname] = env2[gname] = self.fresh_value(gty, "g_" + gname, st)
                st.env = env2
                skip = self.contract.options.get("skip_ensures", {}).get(con.qualname, ())
                for e in con.ensures:
                    if any(sub in e for sub in skip):
                        continue        # the caller does not need this clause (dropping an assumption is always sound)
                    st.assume(self.truthy(self.spec_text(e, st), st))
            else:
                exc = list(con.raises)[outcome - 1]
                for e in con.raises[exc]:
                    st.assume(self.truthy(self.spec_text(e, st), st))
                st.env, st.bound, st.call_pre = saved_env, saved_bound, saved_pre
                raise RaiseSig(exc, line)
        finally:
            st.env, st.bound, st.call_pre = saved_env, saved_bound, saved_pre
        for gname, gv in ghost_out.items():
            st.env[gname] = gv
        return result if result is not None else mk_none()

    def fresh_value(self, ty, base, st):
        k = ty.kind
        if k in ("int", "real", "bool", "str"):
            return SV(ty, self.ctx.fresh(base, sort_of(ty)))
        if k in ("ref", "list"):
            t = self.ctx.fresh(base, z3.IntSort())
            st.assume(z3.And(t >= 1, t < st.alloc()))
            return SV(ty, t)
        if k == "opt":
            t = self.ctx.fresh(base, sort_of(ty.arg))
            n = self.ctx.fresh(base + "?", z3.BoolSort())
            if ty.arg.kind in ("ref", "list"):
                st.assume(z3.Implies(z3.Not(n), z3.And(t >= 1, t < st.alloc())))
            return SV(ty, t, n)
        if k == "none":
            return mk_none()
        if k == "ext":
            sg = self.ctx.fresh(base + "!s", z3.IntSort())
            st.assume(z3.And(sg >= -1, sg <= 1))
            return SV(EXT, self.ctx.fresh(base, z3.RealSort()), sg)
        if k == "tuple":
            return mk_tuple([self.fresh_value(t, base, st) for t in ty.arg])
        if k == "seq":
            return mk_seq(ty.arg, self.ctx.fresh(base, z3.ArraySort(z3.IntSort(), sort_of(ty.arg))), z3.IntVal(0),
                          self._nonneg(self.ctx.fresh(base + "_len", z3.IntSort()), st))
        raise Unsupported("fresh value of %r" % (ty,))

    def _nonneg(self, t, st):
        st.assume(t >= 0)
        return t

    def havoc_modifies(self, con, st, pre):
        """modifies clauses:  'x.f'  'x.features.k'  'list(x.f)' (content+length of that list)  'each(L).f'
           'Class.f' (whole array)  '$list.Real' etc. ; allocation is havocked when con.allocates"""
        ctx = self.ctx
        if con.allocates:
            a = ctx.fresh("alloc", z3.IntSort())
            st.assume(a >= st.alloc())
            old_alloc = st.alloc()
            st.hset("$alloc", a)
            # heap arrays may differ above the old allocation bound (objects created by the callee).
            # allocates=True: every array; allocates=[keys]: only the named arrays (list contents of the stated kinds, ...)
            if con.allocates is True:
                keys = [k for k in (set(ctx.initial) | set(st.heap)) if k != "$alloc"]
            else:
                keys = list(con.allocates)
            for key in sorted(keys):
                cur = st.harr(key, self.heap_sort(key))
                fr = ctx.fresh("new_" + key, cur.sort())
                r = ctx.fresh("r", z3.IntSort())
                st.assume(z3.ForAll([r], z3.Implies(r < old_alloc, fr[r] == cur[r]), patterns=[fr[r]], qid="allocframe_%s" % fr))
                st.hset(key, fr)
        for m in con.modifies:
            self.havoc_clause(m, st, pre)

    def havoc_clause(self, m, st, pre):
        ctx = self.ctx
        m = m.strip()
        if m.startswith("$") or (m.count(".") == 1 and m.split(".")[0] in self.reg.classes and st.get(m.split(".")[0]) is None):
            keys = [m]
            if not m.startswith("$"):
                c, f = m.split(".")
                fk = self.field_key(c, f)
                keys = [fk[0]] + ([fk[0] + "?"] if fk[1].kind == "opt" else []) + ([fk[0] + "!s"] if fk[1].kind == "ext" else [])
            for key in keys:
                cur = st.harr(key, self.heap_sort(key))
                st.hset(key, ctx.fresh("hv_" + key, cur.sort()))
            return
        node = ast.parse(m, mode="eval").body
        if isinstance(node, ast.Call) and isinstance(node.func, ast.Name) and node.func.id == "listof":
            # listof(each(L).f): contents and lengths of the lists stored in field f of the elements of L (pre-state)
            inner = node.args[0]
            tmp = self._pre_state(st, pre)
            lst = self.ev(inner.value.args[0], tmp, True)
            e, arr, off, ln = self.seq_of(lst, tmp, True)
            key, fty = self.field_key(e.arg, inner.attr)
            farr = tmp.harr(key, self.heap_sort(key))
            ety = fty.arg
            r = z3.Int("r!lo")
            # membership through a witness function (skolemised "exists i"): avoids a quantifier nested in the frame axiom
            pos = z3.Function("pos!%d" % ctx.counter, z3.IntSort(), z3.IntSort())
            ctx.counter += 1
            member = lambda rr: z3.And(0 <= pos(rr), pos(rr) < ln, farr[arr[_ix(pos(rr), off)]] == rr)
            for kk in (self.content_key(ety), self.len_key(ety)):
                cur = st.harr(kk, self.heap_sort(kk))
                fr = ctx.fresh("hv_" + kk, cur.sort())
                a_pre = pre.heap.get("$alloc", ctx.initial_array("$alloc"))
                # nothing is claimed for objects allocated after the call started (r >= a_pre): this also stops the frame
                # axiom from chaining through the fresh lists the callee hands back
                st.assume(z3.ForAll([r], z3.Or(r >= a_pre, member(r), fr[r] == cur[r]), patterns=self.frame_patterns(fr, cur, r), qid="listofframe_%s" % fr))
                st.hset(kk, fr)
            return
        # list(expr): content and length of one list object
        if isinstance(node, ast.Call) and isinstance(node.func, ast.Name) and node.func.id == "list":
            tmp = self._pre_state(st, pre)
            lst = self.ev(node.args[0], tmp, True)
            ety = lst.ty.arg
            ca = self.content_arr(ety, st)
            st.hset(self.content_key(ety), z3.Store(ca, lst.t, ctx.fresh("hv_content", ca.sort().range())))
            nl = ctx.fresh("hv_len", z3.IntSort())
            st.assume(nl >= 0)
            st.hset(self.len_key(ety), z3.Store(self.len_arr(st, ety), lst.t, nl))
            return
        if isinstance(node, ast.Attribute) or isinstance(node, ast.Subscript):
            if isinstance(node, ast.Attribute):
                base_node, fname = node.value, node.attr
            else:
                base_node, fname = node.value, node.slice.value
            tmp = self._pre_state(st, pre)
            # each(L).f
            if isinstance(base_node, ast.Call) and isinstance(base_node.func, ast.Name) and base_node.func.id == "each":
                return self.havoc_each(base_node, [fname], st, tmp)
            if isinstance(base_node, ast.Attribute) and isinstance(base_node.value, ast.Call) and \
                    isinstance(base_node.value.func, ast.Name) and base_node.value.func.id == "each":
                return self.havoc_each(base_node.value, [base_node.attr, fname], st, tmp)
            obj = self.ev(base_node, tmp, True)
            key, ty = self.field_key(obj.ty.arg, fname)
            v = self.fresh_value(ty, "hv_" + fname, st)
            self.write_loc(key, ty, obj.t, v, st)
            return
        raise Unsupported("modifies clause %r" % m)

    def frame_patterns(self, fr, cur, r):
        """a frame axiom  'fr[r] == cur[r] unless r is a written location'  fires when BOTH versions of the array are read at r
        (reading only the new version must not enumerate the written set: that feeds a matching loop through the witness index)"""
        return [fr[r]]

    def _pre_state(self, st, pre):
        tmp = State(self.ctx)
        tmp.env = dict(pre.env)
        tmp.heap = dict(pre.heap)
        tmp.pc = st.pc
        tmp.entry = st.entry
        return tmp

    def havoc_each(self, each_node, path, st, tmp):
        ctx = self.ctx
        lst = self.ev(each_node.args[0], tmp, True)
        e, arr, off, ln = self.seq_of(lst, tmp, True)
        cname = e.arg
        # follow intermediate fields (e.g. each(L).features.k): membership of r in {x.features | x in L}
        r = z3.Int("r!each")
        pos = z3.Function("pos!%d" % ctx.counter, z3.IntSort(), z3.IntSort())
        ctx.counter += 1
        member_elem = lambda rr: z3.And(0 <= pos(rr), pos(rr) < ln, arr[_ix(pos(rr), off)] == rr)
        if len(path) == 1:
            key, ty = self.field_key(cname, path[0])
            member = member_elem
        else:
            k1, t1 = self.field_key(cname, path[0])
            a1 = tmp.harr(k1, self.heap_sort(k1))
            key, ty = self.field_key(t1.arg, path[1])
            member = lambda rr: z3.And(0 <= pos(rr), pos(rr) < ln, a1[arr[_ix(pos(rr), off)]] == rr)
        keys = [key] + ([key + "?"] if ty.kind == "opt" else []) + ([key + "!s"] if ty.kind == "ext" else [])
        for kk in keys:
            cur = st.harr(kk, self.heap_sort(kk))
            fr = ctx.fresh("hv_" + kk, cur.sort())
            a_pre = tmp.heap.get("$alloc", ctx.initial_array("$alloc"))
            st.assume(z3.ForAll([r], z3.Or(r >= a_pre, member(r), fr[r] == cur[r]), patterns=self.frame_patterns(fr, cur, r), qid="eachframe_%s" % fr))
            st.hset(kk, fr)

    # ------------------------------------------------------------------ constructors
    def construct(self, cname, args, kwargs, st, node):
        con = self.reg.method_contract(cname, "__init__")
        r = st.new_ref()
        obj = SV(Ref(cname), r)
        if con is None:
            raise Unsupported("constructor %s has no contract" % cname)
        self.apply_contract(con, [obj] + args, kwargs, st, cname + ".__init__")
        return obj
